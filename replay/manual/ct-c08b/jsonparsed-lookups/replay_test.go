package main

// C08 replay (ct-c08b/jsonparsed-lookups): encoding=jsonParsed on a v0 transaction whose archived metadata lists fewer
// loaded addresses than the message's address-table lookups reference.
//
// encodeTransactionResponseBasedOnWantedEncoding rebuilds the address tables from meta.LoadedWritableAddresses /
// LoadedReadonlyAddresses: for every lookup it takes `writable[:len(lookup.WritableIndexes)]` (and the same for readonly)
// without comparing the lengths. The message and the metadata are two independent archived byte strings (C12); a v0
// transaction stored with a metadata record that has no loaded addresses (old metadata format re-encoded as protobuf,
// failed transaction, truncated record, crafted archive) makes the slice expression panic.
// Request: getTransaction [sig, {"encoding":"jsonParsed"}] and getBlock [slot, {"encoding":"jsonParsed"}].
// jsonParsed is served only by a build with the ffi tag; the overlay swaps txstatus-dummy.go for a stand-in whose
// IsEnabled() is true (see ../common/txstatus_enabled.go).
//
//   cd /repo && go test -vet=off -count=1 -overlay /verif/replay/manual/ct-c08b/jsonparsed-lookups/overlay.json -run 'TestReplayC08bJsonParsedLookups' -v .

import (
	"strings"
	"testing"

	"github.com/gagliardetto/solana-go"
)

func TestReplayC08bJsonParsedLookups(t *testing.T) {
	table := c08bKey(0x7A)
	lookups := []solana.MessageAddressTableLookup{{AccountKey: table, WritableIndexes: []uint8{3, 5}, ReadonlyIndexes: []uint8{1}}}
	good := c08bPlainMeta()
	good.LoadedWritableAddresses = c08bKeyBytes(0xC1, 0xC2)
	good.LoadedReadonlyAddresses = c08bKeyBytes(0xC3)
	bad := c08bPlainMeta() // no loaded addresses at all
	fx := c08bBuild(t, []c08bBlock{
		{slot: 999, parent: 0, txs: []c08bTx{{raw: c08bTxBytes(t, c08bV0Tx(0, lookups)), meta: c08bMeta(t, good)}}},
		{slot: 1000, parent: 999, txs: []c08bTx{{raw: c08bTxBytes(t, c08bV0Tx(1, lookups)), meta: c08bMeta(t, bad)}}},
	})
	// sanity: the consistent transaction is served, with the looked-up key resolved
	a, b := fx.jsonParsedBoth(0, 999)
	for _, o := range []c08bOutcome{a, b} {
		if o.panicked || o.rpcErr != nil || !strings.Contains(o.body, c08bKey(0xC1).String()) {
			t.Fatalf("fixture: consistent v0 transaction not served as expected: %v", o)
		}
	}
	a, b = fx.jsonParsedBoth(1, 1000)
	for i, o := range []c08bOutcome{a, b} {
		name := []string{"getTransaction", "getBlock"}[i]
		if o.panicked {
			t.Errorf("REPLAY-CONFIRMED C08/jsonparsed-lookups (JSON-RPC %s, encoding=jsonParsed; v0 message with 3 lookup indexes, metadata with 0 loaded addresses): handler panicked: %s\n  at %s", name, o.panicMsg, o.site())
			continue
		}
		if o.rpcErr == nil && !strings.Contains(o.body, `"result"`) {
			t.Errorf("%s: no response and no error: %v", name, o)
		}
		t.Logf("%s answered without crashing: %v", name, o)
	}
}
