package main

// Expression evaluation over the type-checked AST (code mode).

import (
	"fmt"
	"go/ast"
	"go/constant"
	"go/token"
	"go/types"
	"math/big"
	"strconv"
	"strings"

	"golang.org/x/tools/go/packages"
)

// Unit is one function (or lemma) under verification.
type Unit struct {
	eng             *Engine
	pkg             *packages.Package
	info            *types.Info
	fset            *token.FileSet
	pkgName         string
	key             string
	decl            *ast.FuncDecl
	obj             *types.Func
	sig             *types.Signature
	c               *Ctx
	ct              *FuncContract
	cs              *ContractSet
	obls            []*Obligation
	nameCount       map[string]int
	entry           *State
	entryVals       map[*types.Var]Term
	results         []*types.Var
	boxed           map[*types.Var]bool
	volatile        map[*types.Var]bool
	loopOrd         int
	localAlign      map[int]int
	counted         map[string]int     // callee texts named by called(...) in this unit's contract -> ghost counter id
	forIdxVars      map[int]*types.Var // loop ordinal -> counter of a `for i := 0; cond; i++` loop (stands in for rangeidxN)
	loopExec        []int              // static source index of the loop statement per executed loop (-1: a loop of an inlined callee)
	loopStatic      []ast.Stmt
	loopAlign       map[int]int // current static index -> recorded static index (-1: new loop); nil: identity
	loopAlignDone   bool
	loopForeignSeen int
	loopUnmatched   map[int]bool
	loopSeenStmt    map[ast.Stmt]int
	curLocals       []*types.Var
	rebindNoted     map[string]bool
	siteAlign       map[string]map[int]int
	paramSyms       map[string]string
	defers          []deferred
	abstracted      bool
	unsupported     []string
	specDepth       int
	unfolded        map[string]bool
	exprCount       map[string]int
	retStates       []*State
	curFuncLit      *ast.FuncLit
	loopStack       []*loopCtx
	havocAll        bool
	heapStruct      map[string]*types.Named // cell heap name -> named struct type (for `final` fields)
	loopAlloc       map[int]string          // loop ordinal -> allocation counter at the head of its current iteration (freshin)
	hvCounter       int                     // generations of everything-havocs (see State.hvgen)
	loopGens        map[int]bool            // generations created by loop-head havocs
	allocSites      []allocSite
	sliceDefs       map[string]string
	lenHints        map[string]int64
	calledContracts map[string]bool
	usedLemmas      map[string]bool
	externalCalls   map[string]bool
	specErrors      []string
	deferList       []*ast.CallExpr
	closureWritten  map[*types.Var]bool // locals assigned inside escaping closures (havoced at calls / sync points)
	visLenVars      map[int]*types.Var  // range-over-map loop ordinal -> ghost sum of visited value lengths
	pendingExitHook func(*State)        // facts for the normal exit of the next loop run by runLoop
	goScan          int                 // 0 not scanned, 1 no go statement, 2 has go statement
	spawned         []func(*State)      // re-havoc of the modifies targets of spawned goroutines (see resync)
	deferGuards     []int
	retCount        int
	endPos          token.Pos
	bodyPos         token.Pos
	loopsSeen       map[int]bool
	funcLits        []*ast.FuncLit
	litChecked      map[int]bool // literals whose `lit K ensures` clauses produced obligations
	litGroup        bool         // obligations emitted now belong to an escaping function literal (group prefix "lit:")
	rangeVars       map[int]*types.Var
	visitedVars     map[int]*types.Var
	inlineLit       map[*ast.FuncLit]bool
	litOfVar        map[*types.Var]*ast.FuncLit
	inlineStack     []*inlineFrame
	mentionsHeld    bool
	curSt           *State // state of the statement being executed (for binding long terms)
}

type deferred struct {
	call  *ast.CallExpr
	args  []Term
	recv  *Term
	guard string
}

func (u *Unit) unsupportedf(pos token.Pos, format string, a ...any) {
	p := u.fset.Position(pos)
	u.c.note("%s:%d: %s", shortPath(p.Filename), p.Line, fmt.Sprintf(format, a...))
	u.abstracted = true
}

// ---------- fresh values, zero values, range facts ----------

func (u *Unit) freshOf(st *State, t types.Type, hint string) Term {
	s := u.c.fresh(hint, u.c.sortOf(t))
	tm := Term{S: s, T: t}
	u.assumeRange(st, tm)
	return tm
}

func (u *Unit) zeroOf(t types.Type) Term {
	c := u.c
	if _, isTP := t.(*types.TypeParam); isTP {
		srt := c.sortOf(t)
		name := "zero_" + sanitize(srt)
		c.declareFun(name, "() "+srt)
		return Term{S: name, T: t}
	}
	if bits, signed, ok := intInfo(t); ok {
		return Term{S: c.constInt(big.NewInt(0), bits, signed), T: t, K: big.NewInt(0)}
	}
	if isBoolType(t) {
		return Term{S: "false", T: t}
	}
	if isErrorType(t) {
		return Term{S: "0", T: t}
	}
	switch ut := t.Underlying().(type) {
	case *types.Pointer, *types.Map, *types.Chan, *types.Signature:
		return Term{S: "0", T: t}
	case *types.Interface:
		if isEmptyInterface(t) {
			c.declareFun("any.nil", "() Any")
			c.declareRaw("anyniltag", "(assert (= (any.tag any.nil) 0))")
			c.declareRaw("anynilonly", "(assert (forall ((x Any)) (=> (= (any.tag x) 0) (= x any.nil))))")
			return Term{S: "any.nil", T: t}
		}
		return Term{S: "0", T: t}
	case *types.Slice:
		z := c.idxConst(0)
		return Term{S: fmt.Sprintf("(mk_slice 0 %s %s %s)", z, z, z), T: t}
	case *types.Array:
		ez := u.zeroOf(ut.Elem()).S
		if strings.HasPrefix(ez, "zero_") || ez == "any.nil" {
			// cvc5 accepts only values in constant arrays: use a named array with a defining axiom
			as := c.sortOf(t)
			name := "zeroarr_" + sanitize(as)
			c.declareFun(name, "() "+as)
			c.declareRaw("def_"+name, fmt.Sprintf("(assert (forall ((k %s)) (= (select %s k) %s)))", c.idxSort(), name, ez))
			return Term{S: name, T: t}
		}
		return Term{S: fmt.Sprintf("((as const %s) %s)", c.sortOf(t), ez), T: t}
	case *types.Struct:
		name := c.sortOf(t)
		if ut.NumFields() == 0 {
			return Term{S: "mk_" + name, T: t}
		}
		var fs []string
		for i := 0; i < ut.NumFields(); i++ {
			fs = append(fs, u.zeroOf(ut.Field(i).Type()).S)
		}
		return Term{S: "(mk_" + name + " " + strings.Join(fs, " ") + ")", T: t}
	}
	srt := c.sortOf(t)
	name := "zero_" + sanitize(srt)
	c.declareFun(name, "() "+srt)
	return Term{S: name, T: t}
}

// rangeFacts returns the type invariant of a value of Go type t (as an SMT formula over term s).
func (u *Unit) rangeFacts(st *State, s string, t types.Type, depth int) string {
	c := u.c
	if t == nil || depth > 3 {
		return "true"
	}
	if _, isTP := t.(*types.TypeParam); isTP {
		return "true"
	}
	if bits, signed, ok := intInfo(t); ok {
		if c.bv {
			return "true"
		}
		return c.inRange(s, bits, signed)
	}
	switch ut := t.Underlying().(type) {
	case *types.Slice:
		z := c.idxConst(0)
		big62 := c.constInt(pow2(56), 64, true)
		ref := "(s.ref " + s + ")"
		off, ln, cp := "(s.off "+s+")", "(s.len "+s+")", "(s.cap "+s+")"
		fs := []string{"(<= 0 " + ref + ")", "(< " + ref + " " + st.alloc + ")", c.idxLe(z, off), c.idxLe(z, ln), c.idxLe(ln, cp), c.idxLe(off, big62), c.idxLe(cp, big62),
			implies(eq(ref, "0"), eq(cp, z))}
		return and(fs...)
	case *types.Array:
		if bits, signed, ok := intInfo(ut.Elem()); ok && !c.bv {
			if ut.Len() <= 64 {
				var fs []string
				for i := int64(0); i < ut.Len(); i++ {
					fs = append(fs, c.inRange(fmt.Sprintf("(select %s %s)", s, c.idxConst(i)), bits, signed))
				}
				return and(fs...)
			}
			c.n++
			k := fmt.Sprintf("k_q%d", c.n)
			return fmt.Sprintf("(forall ((%s Int)) %s)", k, c.inRange(fmt.Sprintf("(select %s %s)", s, k), bits, signed))
		}
		return "true"
	case *types.Pointer, *types.Map, *types.Chan:
		return and("(<= 0 "+s+")", "(< "+s+" "+st.alloc+")")
	case *types.Signature:
		return "(<= 0 " + s + ")"
	case *types.Interface:
		if isEmptyInterface(t) || isErrorType(t) {
			return "true"
		}
		return and("(<= 0 "+s+")", "(< "+s+" "+st.alloc+")")
	case *types.Struct:
		name := c.sortOf(t)
		var fs []string
		for i := 0; i < ut.NumFields(); i++ {
			f := ut.Field(i)
			fs = append(fs, u.rangeFacts(st, fmt.Sprintf("(%s.%s %s)", name, fldName(f, i), s), f.Type(), depth+1))
		}
		return and(fs...)
	case *types.Basic:
		if isStringType(t) {
			return c.idxLe(c.idxConst(0), "(gstr.len "+s+")")
		}
	}
	return "true"
}

func (u *Unit) assumeRange(st *State, t Term) {
	if t.IsTuple() {
		for _, x := range t.Tuple {
			u.assumeRange(st, x)
		}
		return
	}
	st.assume(u.rangeFacts(st, t.S, t.T, 0))
}

// ---------- heaps ----------

func (u *Unit) elemHeap(elem types.Type) string {
	name := "HE_" + sanitize(heapTypeKey(elem))
	if _, ok := u.c.heapNames[name]; !ok {
		u.c.heapNames[name] = fmt.Sprintf("(Array Int (Array %s %s))", u.c.idxSort(), u.c.sortOf(elem))
	}
	return name
}

func (u *Unit) ptrHeap(pointee types.Type) string {
	name := "HP_" + sanitize(heapTypeKey(pointee))
	if _, ok := u.c.heapNames[name]; !ok {
		u.c.heapNames[name] = fmt.Sprintf("(Array Int %s)", u.c.sortOf(pointee))
		if nm, ok := pointee.(*types.Named); ok {
			if u.heapStruct == nil {
				u.heapStruct = map[string]*types.Named{}
			}
			u.heapStruct[name] = nm
		}
	}
	return name
}

// finalFacts: the `final` fields of every cell of heap h allocated before `alloc` have the same value in heap
// versions a and b (the package assigns them only at construction).
func (u *Unit) finalFacts(h, a, b, alloc string) string {
	nm := u.heapStruct[h]
	if nm == nil || a == b {
		return ""
	}
	idx := u.eng.finalFields(nm)
	if len(idx) == 0 {
		return ""
	}
	u.c.n++
	r := fmt.Sprintf("r_q%d", u.c.n)
	var eqs []string
	for _, i := range idx {
		fa := u.fieldGet(Term{S: fmt.Sprintf("(select %s %s)", a, r), T: nm}, i)
		fb := u.fieldGet(Term{S: fmt.Sprintf("(select %s %s)", b, r), T: nm}, i)
		eqs = append(eqs, eq(fa.S, fb.S))
	}
	return fmt.Sprintf("(forall ((%s Int)) (! (=> (and (<= 1 %s) (< %s %s)) %s) :pattern ((select %s %s))))", r, r, r, alloc, and(eqs...), b, r)
}

func heapTypeKey(t types.Type) string {
	if b, ok := t.(*types.Basic); ok {
		switch b.Kind() {
		case types.Uint8:
			return "uint8"
		case types.Int32:
			return "int32"
		}
	}
	if a, ok := t.(*types.Alias); ok {
		return heapTypeKey(types.Unalias(a))
	}
	// qualified by package PATH: two imported packages may share a name (bucketteer / deprecated/bucketteer)
	return types.TypeString(t, func(p *types.Package) string {
		path := p.Path()
		path = strings.TrimPrefix(path, repoMod+"/")
		if path == repoMod {
			path = "main"
		}
		return path
	})
}

// bumpAlloc: a callee may have allocated; the allocation counter only grows.
func (u *Unit) bumpAlloc(st *State) {
	na := u.c.fresh("alloc", "Int")
	st.assume("(>= " + na + " " + st.alloc + ")")
	st.alloc = na
}

func (u *Unit) heapRead(st *State, h string) string {
	if st.tainted[h] {
		// interior pointers exist: nothing is known about this heap
		f := u.c.fresh(h+"_taint", u.c.heapNames[h])
		return f
	}
	return u.heapCur(st, h)
}

func (u *Unit) heapWrite(st *State, h string, newVal string) {
	n := u.c.fresh(h, u.c.heapNames[h])
	st.assume(eq(n, newVal))
	st.heaps[h] = n
}

func (u *Unit) havocHeap(st *State, h string) {
	if h == "HG_called" {
		return // this activation's own call counters: no callee can change them
	}
	if strings.HasPrefix(h, "HMp_") || strings.HasPrefix(h, "HMv_") {
		// the length-sum ghost of maps of this type is forgotten with them
		if hl := "HL_" + h[4:]; u.c.heapNames[hl] != "" {
			st.heaps[hl] = u.c.fresh(hl, u.c.heapNames[hl])
		}
	}
	prev := u.heapCur(st, h)
	n := u.c.fresh(h, u.c.heapNames[h])
	st.heaps[h] = n
	if f := u.finalFacts(h, prev, n, st.alloc); f != "" {
		st.assume(f)
	}
}

func (u *Unit) havocAllHeaps(st *State) {
	for _, h := range sortedKeys(u.c.heapNames) {
		u.havocHeap(st, h)
	}
	u.havocAll = true
	u.hvCounter++
	st.hvgen = u.hvCounter
	st.unk = true
}

func (u *Unit) newRef(st *State) string {
	r := st.alloc
	n := u.c.fresh("alloc", "Int")
	st.assume(eq(n, "(+ "+r+" 1)"))
	st.alloc = n
	return r
}

// slice helpers
func sPart(s string, i int, acc string) string {
	if strings.HasPrefix(s, "(mk_slice ") {
		if parts := splitSexp(s[1 : len(s)-1]); len(parts) == 5 {
			return parts[i]
		}
	}
	return "(" + acc + " " + s + ")"
}
func sRef(s string) string { return sPart(s, 1, "s.ref") }
func sOff(s string) string { return sPart(s, 2, "s.off") }
func sLen(s string) string { return sPart(s, 3, "s.len") }
func sCap(s string) string { return sPart(s, 4, "s.cap") }

func (u *Unit) sliceBlock(st *State, sl Term) string {
	elem := sl.T.Underlying().(*types.Slice).Elem()
	h := u.elemHeap(elem)
	return fmt.Sprintf("(select %s %s)", u.heapRead(st, h), sRef(sl.S))
}

func (u *Unit) sliceElem(st *State, sl Term, idx string) Term {
	elem := sl.T.Underlying().(*types.Slice).Elem()
	s := fmt.Sprintf("(select %s %s)", u.sliceBlock(st, sl), u.c.idxAdd(sOff(sl.S), idx))
	t := Term{S: s, T: elem}
	return t
}

func (u *Unit) sliceStore(st *State, sl Term, idx string, val string) {
	elem := sl.T.Underlying().(*types.Slice).Elem()
	h := u.elemHeap(elem)
	cur := u.heapRead(st, h)
	blk := fmt.Sprintf("(select %s %s)", cur, sRef(sl.S))
	nb := fmt.Sprintf("(store %s %s %s)", blk, u.c.idxAdd(sOff(sl.S), idx), val)
	u.heapWrite(st, h, fmt.Sprintf("(store %s %s %s)", cur, sRef(sl.S), nb))
}

// allocBlock allocates a fresh block with the given content and returns the ref.
func (u *Unit) allocBlock(st *State, elem types.Type, content string) string {
	h := u.elemHeap(elem)
	r := u.newRef(st)
	cur := u.heapRead(st, h)
	u.heapWrite(st, h, fmt.Sprintf("(store %s %s %s)", cur, r, content))
	return r
}

func (u *Unit) allocCell(st *State, pointee types.Type, content string) string {
	if at, ok := pointee.Underlying().(*types.Array); ok {
		return u.allocBlock(st, at.Elem(), content)
	}
	h := u.ptrHeap(pointee)
	r := u.newRef(st)
	cur := u.heapRead(st, h)
	u.heapWrite(st, h, fmt.Sprintf("(store %s %s %s)", cur, r, content))
	if nm, ok := pointee.(*types.Named); ok && nm.Obj().Pkg() != nil && nm.Obj().Pkg().Path() == "bytes" && nm.Obj().Name() == "Buffer" && content == u.zeroOf(pointee).S {
		// a zero-value bytes.Buffer is empty: nothing written that was not read (Len() == written - consumed == 0)
		st.assume(eq(u.ghostCount(st, "written", r), u.ghostCount(st, "consumed", r)))
	}
	return r
}

func (u *Unit) loadCell(st *State, pointee types.Type, ref string) Term {
	if at, ok := pointee.Underlying().(*types.Array); ok {
		h := u.elemHeap(at.Elem())
		return Term{S: fmt.Sprintf("(select %s %s)", u.heapRead(st, h), ref), T: pointee}
	}
	h := u.ptrHeap(pointee)
	return Term{S: fmt.Sprintf("(select %s %s)", u.heapRead(st, h), ref), T: pointee}
}

func (u *Unit) storeCell(st *State, pointee types.Type, ref string, val string) {
	var h string
	if at, ok := pointee.Underlying().(*types.Array); ok {
		h = u.elemHeap(at.Elem())
	} else {
		h = u.ptrHeap(pointee)
	}
	cur := u.heapRead(st, h)
	u.heapWrite(st, h, fmt.Sprintf("(store %s %s %s)", cur, ref, val))
}

// ---------- variables ----------

func (u *Unit) readVar(st *State, v *types.Var, pos token.Pos) Term {
	if u.volatile[v] {
		return u.freshOf(st, v.Type(), v.Name()+"_vol")
	}
	t, ok := st.vars[v]
	if !ok {
		if v.Pkg() != nil && v.Parent() == v.Pkg().Scope() {
			return u.readGlobal(st, v)
		}
		// captured from an enclosing function or otherwise unknown
		f := u.freshOf(st, v.Type(), v.Name()+"_unk")
		if !u.boxed[v] {
			st.vars[v] = f
		}
		return f
	}
	if u.boxed[v] {
		r := u.loadCell(st, v.Type(), t.S)
		return r
	}
	t.T = v.Type()
	return t
}

func (u *Unit) writeVar(st *State, v *types.Var, val Term) {
	if u.volatile[v] {
		return
	}
	if v.Pkg() != nil && v.Parent() == v.Pkg().Scope() {
		u.c.note("write to package variable %s ignored (reads of mutable globals are unconstrained)", v.Name())
		return
	}
	if u.boxed[v] {
		ref, ok := st.vars[v]
		if !ok {
			r := u.allocCell(st, v.Type(), val.S)
			st.vars[v] = Term{S: r, T: v.Type()}
			return
		}
		u.storeCell(st, v.Type(), ref.S, val.S)
		return
	}
	// bind through a fresh constant to keep terms small
	if len(val.S) > 40 {
		srt := u.c.sortOf(v.Type())
		if val.Spec != "" {
			srt = val.Spec
		}
		n := u.c.fresh(v.Name(), srt)
		st.assume(eq(n, val.S))
		val.S = n
	}
	val.T = v.Type()
	st.vars[v] = val
}

func (u *Unit) declareVar(st *State, v *types.Var, val Term) {
	if u.boxed[v] {
		r := u.allocCell(st, v.Type(), val.S)
		st.vars[v] = Term{S: r, T: v.Type()}
		return
	}
	delete(st.vars, v)
	u.writeVar(st, v, val)
}

// knownExternalVars: package variables of dependencies that the repository never assigns, with the value of their
// initialiser (trusted; listed in the evidence).
var knownExternalVars = map[string]int64{
	"github.com/ipld/go-car/util.MaxAllowedSectionSize": 32 << 20,
}

// nonNilExternalVars: pointer/interface-typed package variables of dependencies that are set once at package
// initialisation and never assigned by the repository (trusted; listed in the trusted base).
var nonNilExternalVars = map[string]bool{
	"github.com/json-iterator/go.ConfigCompatibleWithStandardLibrary": true,
	"github.com/json-iterator/go.ConfigDefault":                       true,
	"github.com/json-iterator/go.ConfigFastest":                       true,
	"encoding/base64.StdEncoding":                                     true,
	"encoding/base64.URLEncoding":                                     true,
	"encoding/base64.RawStdEncoding":                                  true,
	"encoding/base64.RawURLEncoding":                                  true,
	"encoding/binary.LittleEndian":                                    true,
	"encoding/binary.BigEndian":                                       true,
	"os.Stdout":                                                       true,
	"os.Stderr":                                                       true,
	"os.Stdin":                                                        true,
}

func (u *Unit) entryOr(st *State) *State {
	if u.entry != nil {
		return u.entry
	}
	return st
}

func (u *Unit) readGlobal(st *State, v *types.Var) Term {
	name := "gv_" + sanitize(v.Pkg().Name()) + "_" + sanitize(v.Name())
	if v.Pkg().Path() == "github.com/ipfs/go-cid" && v.Name() == "Undef" {
		// go-cid: var Undef = Cid{} (never assigned by the repository): the zero value
		z := u.zeroOf(v.Type())
		return z
	}
	if v.Pkg().Path() == "io" && v.Name() == "Discard" {
		u.c.declareFun("gv_io_Discard", "() Int")
		u.c.declareRaw("nonnil_io_Discard", "(assert (and (> gv_io_Discard 0) (< gv_io_Discard alloc@0)))")
		return Term{S: "gv_io_Discard", T: v.Type()}
	}
	if nonNilExternalVars[v.Pkg().Path()+"."+v.Name()] && u.c.sortOf(v.Type()) == "Int" {
		// package-level singletons of dependencies (initialised at package init, never assigned by the repository): non-nil
		u.c.declareFun(name, "() Int")
		u.c.declareRaw("nonnil_"+name, fmt.Sprintf("(assert (and (> %s 0) (< %s alloc@0)))", name, name))
		return Term{S: name, T: v.Type()}
	}
	if k, ok := knownExternalVars[v.Pkg().Path()+"."+v.Name()]; ok {
		if bits, signed, isInt := intInfo(v.Type()); isInt {
			u.c.note("external package variable %s.%s taken as its initialiser value %d (trusted)", v.Pkg().Name(), v.Name(), k)
			return Term{S: u.c.constInt(big.NewInt(k), bits, signed), T: v.Type(), K: big.NewInt(k)}
		}
	}
	if isErrorType(v.Type()) {
		// error sentinels: immutable, distinct, non-nil
		id, ok := u.c.errConsts[name]
		if !ok {
			id = len(u.c.errConsts) + 1
			u.c.errConsts[name] = id
		}
		return Term{S: fmt.Sprintf("%d", id), T: v.Type()}
	}
	if u.eng.immutableGlobal(v) {
		if init := u.eng.globalInit(v); init != nil {
			if t, ok := u.constArrayLit(init, v.Type()); ok {
				return t
			}
		}
		u.c.declareFun(name, "() "+u.c.sortOf(v.Type()))
		t := Term{S: name, T: v.Type()}
		// []byte{'k', 'i', ...}: length and content known
		if cl, ok := ast.Unparen(u.eng.globalInit(v)).(*ast.CompositeLit); ok {
			if sl, isSlice := v.Type().Underlying().(*types.Slice); isSlice && len(cl.Elts) <= 64 {
				if bits, signed, isInt := intInfo(sl.Elem()); isInt {
					okAll := true
					var vals []*big.Int
					for _, el := range cl.Elts {
						k, ok := u.eng.constOf(el)
						if !ok {
							okAll = false
							break
						}
						vals = append(vals, k)
					}
					if okAll {
						u.c.declareRaw("len_"+name, fmt.Sprintf("(assert (and (= (s.len %s) %s) (> (s.ref %s) 0) (< (s.ref %s) alloc@0) (= (s.off %s) %s)))", name, u.c.idxConst(int64(len(vals))), name, name, name, u.c.idxConst(0)))
						h := u.elemHeap(sl.Elem())
						for i, k := range vals {
							st.assume(eq(fmt.Sprintf("(select (select %s (s.ref %s)) %s)", u.heapCur(u.entryOr(st), h), name, u.c.idxConst(int64(i))), u.c.constInt(k, bits, signed)))
						}
					}
				}
			}
		}
		// []byte("literal"): the length is known
		if call, ok := ast.Unparen(u.eng.globalInit(v)).(*ast.CallExpr); ok && len(call.Args) == 1 {
			if bl, ok := ast.Unparen(call.Args[0]).(*ast.BasicLit); ok && bl.Kind == token.STRING {
				if _, isSlice := v.Type().Underlying().(*types.Slice); isSlice {
					if str, err := strconv.Unquote(bl.Value); err == nil {
						u.c.declareRaw("len_"+name, fmt.Sprintf("(assert (and (= (s.len %s) %s) (> (s.ref %s) 0) (< (s.ref %s) alloc@0) (= (s.off %s) %s)))", name, u.c.idxConst(int64(len(str))), name, name, name, u.c.idxConst(0)))
						if sl, ok := v.Type().Underlying().(*types.Slice); ok && len(str) <= 64 {
							if bits, signed, isInt := intInfo(sl.Elem()); isInt {
								h := u.elemHeap(sl.Elem())
								for i := 0; i < len(str); i++ {
									st.assume(eq(fmt.Sprintf("(select (select %s (s.ref %s)) %s)", u.heapCur(u.entryOr(st), h), name, u.c.idxConst(int64(i))), u.c.constInt(big.NewInt(int64(str[i])), bits, signed)))
								}
							}
						}
					}
				}
			}
		}
		// an immutable package variable initialised with something other than nil is non-nil (trusted initialiser)
		if init := u.eng.globalInit(v); init != nil && u.c.sortOf(v.Type()) == "Int" {
			if id, ok := ast.Unparen(init).(*ast.Ident); !ok || id.Name != "nil" {
				switch v.Type().Underlying().(type) {
				case *types.Pointer, *types.Interface, *types.Map, *types.Signature, *types.Chan:
					u.c.declareRaw("nonnil_"+name, "(assert (> "+name+" 0))")
				}
			}
		}
		return t
	}
	return u.freshOf(st, v.Type(), name)
}

// constArrayLit evaluates a composite literal of constant elements ([8]byte{'a',...}).
func (u *Unit) constArrayLit(e ast.Expr, t types.Type) (Term, bool) {
	cl, ok := e.(*ast.CompositeLit)
	if !ok {
		return Term{}, false
	}
	at, ok := t.Underlying().(*types.Array)
	if !ok {
		return Term{}, false
	}
	bits, signed, ok := intInfo(at.Elem())
	if !ok {
		return Term{}, false
	}
	arr := u.zeroOf(t).S
	for i, el := range cl.Elts {
		if _, isKV := el.(*ast.KeyValueExpr); isKV {
			return Term{}, false
		}
		tv, ok := u.eng.constOf(el)
		if !ok {
			return Term{}, false
		}
		arr = fmt.Sprintf("(store %s %s %s)", arr, u.c.idxConst(int64(i)), u.c.constInt(tv, bits, signed))
	}
	return Term{S: arr, T: t}, true
}

// ---------- constants ----------

func (u *Unit) constTerm(v constant.Value, t types.Type) (Term, bool) {
	switch v.Kind() {
	case constant.Bool:
		if constant.BoolVal(v) {
			return Term{S: "true", T: t}, true
		}
		return Term{S: "false", T: t}, true
	case constant.Int:
		bi, ok := new(big.Int).SetString(v.ExactString(), 10)
		if !ok {
			return Term{}, false
		}
		if bits, signed, ok := intInfo(t); ok {
			return Term{S: u.c.constInt(bi, bits, signed), T: t, K: bi}, true
		}
		if b, ok := t.Underlying().(*types.Basic); ok && (b.Info()&types.IsFloat) != 0 {
			return Term{}, false
		}
		return Term{S: smtInt(bi), T: nil, K: bi}, true
	case constant.String:
		s := constant.StringVal(v)
		id, ok := u.c.strLits[s]
		if !ok {
			id = len(u.c.strLits) + 1
			u.c.strLits[s] = id
			name := fmt.Sprintf("strlit%d", id)
			u.c.declareFun(name, "() Str")
			u.c.declareRaw("strlitlen"+name, fmt.Sprintf("(assert (= (gstr.len %s) %s))", name, u.c.idxConst(int64(len(s)))))
		}
		return Term{S: fmt.Sprintf("strlit%d", id), T: t}, true
	}
	return Term{}, false
}

// ---------- main evaluator ----------

func (u *Unit) eval(st *State, e ast.Expr) Term {
	if tv, ok := u.info.Types[e]; ok && tv.Value != nil {
		if t, ok := u.constTerm(tv.Value, tv.Type); ok {
			return t
		}
	}
	t := u.eval1(st, e)
	if !t.IsTuple() {
		if tt := u.info.TypeOf(e); tt != nil {
			if _, isTuple := tt.(*types.Tuple); !isTuple {
				t.T = tt
			}
		}
	}
	return t
}

func (u *Unit) typeOf(e ast.Expr) types.Type { return u.info.TypeOf(e) }

func (u *Unit) abstractExpr(st *State, e ast.Expr, why string) Term {
	u.unsupportedf(e.Pos(), "abstracted expression (%s): %s", why, u.exprText(e))
	t := u.typeOf(e)
	if t == nil {
		return Term{S: u.c.fresh("abs", "Opaque")}
	}
	if tup, ok := t.(*types.Tuple); ok {
		var ts []Term
		for i := 0; i < tup.Len(); i++ {
			ts = append(ts, u.freshOf(st, tup.At(i).Type(), "abs"))
		}
		return Term{Tuple: ts}
	}
	return u.freshOf(st, t, "abs")
}

func (u *Unit) exprText(e ast.Node) string {
	var b strings.Builder
	if err := printNode(&b, u.fset, e); err != nil {
		return "?"
	}
	return oneLine(b.String())
}

func (u *Unit) eval1(st *State, e ast.Expr) Term {
	switch e := e.(type) {
	case *ast.ParenExpr:
		return u.eval(st, e.X)
	case *ast.BasicLit:
		return u.abstractExpr(st, e, "literal")
	case *ast.Ident:
		return u.evalIdent(st, e)
	case *ast.SelectorExpr:
		return u.evalSelector(st, e)
	case *ast.IndexExpr:
		return u.evalIndex(st, e)
	case *ast.SliceExpr:
		return u.evalSliceExpr(st, e)
	case *ast.StarExpr:
		p := u.eval(st, e.X)
		u.checkNonNil(st, p, e.X)
		pt, ok := p.T.Underlying().(*types.Pointer)
		if !ok {
			return u.abstractExpr(st, e, "deref of non-pointer")
		}
		r := u.loadCell(st, pt.Elem(), p.S)
		u.assumeRange(st, r)
		return r
	case *ast.UnaryExpr:
		return u.evalUnary(st, e)
	case *ast.BinaryExpr:
		return u.evalBinary(st, e)
	case *ast.CallExpr:
		return u.evalCall(st, e)
	case *ast.CompositeLit:
		return u.evalCompositeLit(st, e)
	case *ast.FuncLit:
		u.eng.noteFuncLit(u, e)
		r := u.c.fresh("closure", "Int")
		st.assume("(> " + r + " 0)")
		return Term{S: r, T: u.typeOf(e)}
	case *ast.TypeAssertExpr:
		return u.evalTypeAssert(st, e, false)
	}
	return u.abstractExpr(st, e, fmt.Sprintf("%T", e))
}

func (u *Unit) evalIdent(st *State, id *ast.Ident) Term {
	obj := u.info.Uses[id]
	if obj == nil {
		obj = u.info.Defs[id]
	}
	switch o := obj.(type) {
	case *types.Var:
		return u.readVar(st, o, id.Pos())
	case *types.Nil:
		t := u.typeOf(id)
		return u.zeroOf(t)
	case *types.Func:
		return u.funcRef(o)
	case *types.Const:
		if t, ok := u.constTerm(o.Val(), o.Type()); ok {
			return t
		}
	}
	return u.abstractExpr(st, id, "identifier")
}

func (u *Unit) funcRef(f *types.Func) Term {
	name := "fn_" + sanitize(f.FullName())
	u.c.declareFun(name, "() Int")
	u.c.declareRaw("fnpos_"+name, "(assert (> "+name+" 0))")
	return Term{S: name, T: f.Type()}
}

// mkParts splits a constructor application (mk_S a0 .. an) into its arguments.
func mkParts(s, name string) ([]string, bool) {
	if !strings.HasPrefix(s, "(mk_"+name+" ") {
		return nil, false
	}
	parts := splitSexp(s[1 : len(s)-1])
	if len(parts) < 2 {
		return nil, false
	}
	return parts[1:], true
}

// fieldGet selects field i of struct-valued term.
func (u *Unit) fieldGet(base Term, i int) Term {
	st := base.T.Underlying().(*types.Struct)
	name := u.c.sortOf(base.T)
	f := st.Field(i)
	if parts, ok := mkParts(base.S, name); ok && len(parts) == st.NumFields() {
		return Term{S: parts[i], T: f.Type()}
	}
	return Term{S: fmt.Sprintf("(%s.%s %s)", name, fldName(f, i), base.S), T: f.Type()}
}

// fieldSet returns base with field i replaced.
func (u *Unit) fieldSet(base Term, i int, val string) Term {
	stt := base.T.Underlying().(*types.Struct)
	name := u.c.sortOf(base.T)
	if parts, ok := mkParts(base.S, name); ok && len(parts) == stt.NumFields() {
		np := append([]string(nil), parts...)
		np[i] = val
		return Term{S: "(mk_" + name + " " + strings.Join(np, " ") + ")", T: base.T}
	}
	b := base.S
	if len(b) > 60 && u.curSt != nil {
		// bind the base once instead of repeating it for every field
		n := u.c.fresh("rec", name)
		u.curSt.assume(eq(n, b))
		b = n
	}
	var fs []string
	for k := 0; k < stt.NumFields(); k++ {
		if k == i {
			fs = append(fs, val)
		} else {
			fs = append(fs, fmt.Sprintf("(%s.%s %s)", name, fldName(stt.Field(k), k), b))
		}
	}
	return Term{S: "(mk_" + name + " " + strings.Join(fs, " ") + ")", T: base.T}
}

func (u *Unit) evalSelector(st *State, e *ast.SelectorExpr) Term {
	if sel, ok := u.info.Selections[e]; ok {
		switch sel.Kind() {
		case types.FieldVal:
			base := u.eval(st, e.X)
			return u.walkFieldPath(st, base, sel.Index(), e)
		case types.MethodVal:
			// method value: an opaque function reference determined by receiver and method
			recv := u.eval(st, e.X)
			f := sel.Obj().(*types.Func)
			name := "mv_" + sanitize(f.FullName())
			rs := u.c.sortOf(recv.T)
			u.c.declareFun(name, "("+rs+") Int")
			r := fmt.Sprintf("(%s %s)", name, recv.S)
			st.assume("(> " + r + " 0)")
			return Term{S: r, T: u.typeOf(e)}
		}
		return u.abstractExpr(st, e, "method expression")
	}
	// qualified identifier
	obj := u.info.Uses[e.Sel]
	switch o := obj.(type) {
	case *types.Var:
		return u.readGlobal(st, o)
	case *types.Func:
		return u.funcRef(o)
	case *types.Const:
		if t, ok := u.constTerm(o.Val(), o.Type()); ok {
			return t
		}
	}
	return u.abstractExpr(st, e, "qualified identifier")
}

// walkFieldPath follows a selection index path, dereferencing embedded pointers.
func (u *Unit) walkFieldPath(st *State, base Term, path []int, at ast.Expr) Term {
	cur := base
	for _, i := range path {
		if pt, ok := cur.T.Underlying().(*types.Pointer); ok {
			u.checkNonNilTerm(st, cur, at, u.exprText(at))
			cur = u.loadCell(st, pt.Elem(), cur.S)
		}
		if _, ok := cur.T.Underlying().(*types.Struct); !ok {
			return u.abstractExpr(st, at, "field of non-struct")
		}
		cur = u.fieldGet(cur, i)
	}
	u.assumeRange(st, cur)
	return cur
}

func (u *Unit) checkNonNil(st *State, p Term, at ast.Expr) {
	u.checkNonNilTerm(st, p, at, u.exprText(at))
}

func (u *Unit) checkNonNilTerm(st *State, p Term, at ast.Node, text string) {
	if p.S == "0" {
		u.emit(st, "safety", u.safetyName("nil", text), "nil dereference of "+text, at.Pos(), "false")
		return
	}
	if strings.HasPrefix(p.S, "fn_") || strings.HasPrefix(p.S, "(mv_") {
		return
	}
	u.emit(st, "safety", u.safetyName("nil", text), "nil dereference of "+text, at.Pos(), not(eq(p.S, "0")))
	st.assume(not(eq(p.S, "0")))
}

func (u *Unit) safetyName(kind, text string) string {
	text = strings.Join(strings.Fields(text), "")
	if len(text) > 60 {
		text = text[:60]
	}
	return kind + "[" + text + "]"
}

func (u *Unit) checkIndex(st *State, idx Term, ln string, at ast.Node, text string) {
	c := u.c
	i := u.toIdx(idx)
	goal := and(c.idxLe(c.idxConst(0), i), c.idxLt(i, ln))
	u.emit(st, "safety", u.safetyName("bounds", text), "index in range: "+text, at.Pos(), goal)
	st.assume(goal)
}

// toIdx converts an integer term of any Go integer type to the index sort (Go int).
func (u *Unit) toIdx(t Term) string {
	if t.T == nil {
		if t.K != nil {
			return u.c.idxConst(t.K.Int64())
		}
		return t.S
	}
	return u.convertInt(t, types.Typ[types.Int]).S
}

func (u *Unit) evalIndex(st *State, e *ast.IndexExpr) Term {
	xt := u.typeOf(e.X)
	if xt == nil {
		return u.abstractExpr(st, e, "index")
	}
	if _, isSig := xt.Underlying().(*types.Signature); isSig {
		return u.eval(st, e.X) // generic instantiation
	}
	switch ut := xt.Underlying().(type) {
	case *types.Slice:
		s := u.eval(st, e.X)
		i := u.eval(st, e.Index)
		u.checkIndex(st, i, sLen(s.S), e, u.exprText(e))
		r := u.sliceElem(st, s, u.toIdx(i))
		u.assumeRange(st, r)
		return r
	case *types.Array:
		a := u.eval(st, e.X)
		i := u.eval(st, e.Index)
		u.checkIndex(st, i, u.c.idxConst(ut.Len()), e, u.exprText(e))
		r := Term{S: fmt.Sprintf("(select %s %s)", a.S, u.toIdx(i)), T: ut.Elem()}
		u.assumeRange(st, r)
		return r
	case *types.Pointer:
		if at, ok := ut.Elem().Underlying().(*types.Array); ok {
			p := u.eval(st, e.X)
			u.checkNonNil(st, p, e.X)
			i := u.eval(st, e.Index)
			u.checkIndex(st, i, u.c.idxConst(at.Len()), e, u.exprText(e))
			blk := u.loadCell(st, ut.Elem(), p.S)
			r := Term{S: fmt.Sprintf("(select %s %s)", blk.S, u.toIdx(i)), T: at.Elem()}
			u.assumeRange(st, r)
			return r
		}
	case *types.Map:
		m := u.eval(st, e.X)
		k := u.eval(st, e.Index)
		v, _ := u.mapLookup(st, m, k, ut)
		return v
	case *types.Basic:
		if isStringType(xt) {
			s := u.eval(st, e.X)
			i := u.eval(st, e.Index)
			u.checkIndex(st, i, "(gstr.len "+s.S+")", e, u.exprText(e))
			u.c.declareFun("gstr.at", "(Str "+u.c.idxSort()+") "+u.c.sortOf(types.Typ[types.Uint8]))
			r := Term{S: fmt.Sprintf("(gstr.at %s %s)", s.S, u.toIdx(i)), T: types.Typ[types.Uint8]}
			u.assumeRange(st, r)
			return r
		}
	}
	return u.abstractExpr(st, e, "index")
}

func (u *Unit) evalSliceExpr(st *State, e *ast.SliceExpr) Term {
	c := u.c
	xt := u.typeOf(e.X)
	var ref, off, ln, cp string
	var elem types.Type
	switch ut := xt.Underlying().(type) {
	case *types.Slice:
		s := u.eval(st, e.X)
		ref, off, ln, cp = sRef(s.S), sOff(s.S), sLen(s.S), sCap(s.S)
		elem = ut.Elem()
	case *types.Pointer:
		at, ok := ut.Elem().Underlying().(*types.Array)
		if !ok {
			return u.abstractExpr(st, e, "slice of pointer")
		}
		p := u.eval(st, e.X)
		u.checkNonNil(st, p, e.X)
		ref, off, ln, cp = p.S, c.idxConst(0), c.idxConst(at.Len()), c.idxConst(at.Len())
		elem = at.Elem()
	case *types.Array:
		// slicing an addressable array: boxed local variable, or a field (copy-in, no write-back: noted)
		if id, ok := ast.Unparen(e.X).(*ast.Ident); ok {
			if v, ok := u.info.Uses[id].(*types.Var); ok && u.boxed[v] {
				r, has := st.vars[v]
				if !has {
					u.declareVar(st, v, u.zeroOf(v.Type()))
					r = st.vars[v]
				}
				ref, off, ln, cp = r.S, c.idxConst(0), c.idxConst(ut.Len()), c.idxConst(ut.Len())
				elem = ut.Elem()
				break
			}
		}
		a := u.eval(st, e.X)
		r := u.allocBlock(st, ut.Elem(), a.S)
		u.c.note("slicing of a non-local array %s modelled as a copy (writes through the slice are not written back)", u.exprText(e.X))
		ref, off, ln, cp = r, c.idxConst(0), c.idxConst(ut.Len()), c.idxConst(ut.Len())
		elem = ut.Elem()
	case *types.Basic:
		if isStringType(xt) {
			s := u.eval(st, e.X)
			lo := c.idxConst(0)
			hi := "(gstr.len " + s.S + ")"
			if e.Low != nil {
				lo = u.toIdx(u.eval(st, e.Low))
			}
			if e.High != nil {
				hi = u.toIdx(u.eval(st, e.High))
			}
			goal := and(c.idxLe(c.idxConst(0), lo), c.idxLe(lo, hi), c.idxLe(hi, "(gstr.len "+s.S+")"))
			u.emit(st, "safety", u.safetyName("bounds", u.exprText(e)), "slice bounds: "+u.exprText(e), e.Pos(), goal)
			st.assume(goal)
			r := u.freshOf(st, xt, "substr")
			st.assume(eq("(gstr.len "+r.S+")", c.idxSub(hi, lo)))
			return r
		}
		return u.abstractExpr(st, e, "slice expr")
	default:
		return u.abstractExpr(st, e, "slice expr")
	}
	lo := c.idxConst(0)
	hi := ln
	mx := cp
	if e.Low != nil {
		lo = u.toIdx(u.eval(st, e.Low))
	}
	if e.High != nil {
		hi = u.toIdx(u.eval(st, e.High))
	}
	if e.Max != nil {
		mx = u.toIdx(u.eval(st, e.Max))
	}
	limit := cp
	if e.High == nil {
		limit = ln
	}
	_ = limit
	var goal string
	if e.Max != nil {
		goal = and(c.idxLe(c.idxConst(0), lo), c.idxLe(lo, hi), c.idxLe(hi, mx), c.idxLe(mx, cp))
	} else {
		goal = and(c.idxLe(c.idxConst(0), lo), c.idxLe(lo, hi), c.idxLe(hi, cp))
	}
	u.emit(st, "safety", u.safetyName("bounds", u.exprText(e)), "slice bounds: "+u.exprText(e), e.Pos(), goal)
	st.assume(goal)
	res := fmt.Sprintf("(mk_slice %s %s %s %s)", ref, c.idxAdd(off, lo), c.idxSub(hi, lo), c.idxSub(mx, lo))
	rt := u.typeOf(e)
	if rt == nil {
		rt = types.NewSlice(elem)
	}
	return Term{S: res, T: rt}
}

func (u *Unit) evalUnary(st *State, e *ast.UnaryExpr) Term {
	switch e.Op {
	case token.NOT:
		x := u.eval(st, e.X)
		return Term{S: not(x.S), T: x.T}
	case token.ADD:
		return u.eval(st, e.X)
	case token.SUB:
		x := u.eval(st, e.X)
		t := u.typeOf(e)
		bits, signed, ok := intInfo(t)
		if !ok {
			return u.abstractExpr(st, e, "negation")
		}
		if u.c.bv {
			return Term{S: "(bvneg " + x.S + ")", T: t}
		}
		return Term{S: u.c.wrapInt("(- "+x.S+")", bits, signed), T: t}
	case token.XOR:
		x := u.eval(st, e.X)
		t := u.typeOf(e)
		bits, signed, ok := intInfo(t)
		if !ok {
			return u.abstractExpr(st, e, "complement")
		}
		if u.c.bv {
			return Term{S: "(bvnot " + x.S + ")", T: t}
		}
		if signed {
			return Term{S: "(- (- " + x.S + ") 1)", T: t}
		}
		_, hi := intRange(bits, signed)
		return Term{S: "(- " + smtInt(hi) + " " + x.S + ")", T: t}
	case token.AND:
		return u.evalAddrOf(st, e)
	case token.ARROW:
		u.eval(st, e.X)
		u.unsupportedf(e.Pos(), "channel receive modelled as an arbitrary value")
		u.resync(st)
		t := u.typeOf(e)
		if tup, ok := t.(*types.Tuple); ok {
			return Term{Tuple: []Term{u.freshOf(st, tup.At(0).Type(), "recv"), u.freshOf(st, tup.At(1).Type(), "recvok")}}
		}
		return u.freshOf(st, t, "recv")
	}
	return u.abstractExpr(st, e, "unary "+e.Op.String())
}

func (u *Unit) evalAddrOf(st *State, e *ast.UnaryExpr) Term {
	x := ast.Unparen(e.X)
	t := u.typeOf(e)
	switch x := x.(type) {
	case *ast.Ident:
		if v, ok := u.info.Uses[x].(*types.Var); ok {
			if u.boxed[v] {
				r, has := st.vars[v]
				if !has {
					u.declareVar(st, v, u.zeroOf(v.Type()))
					r = st.vars[v]
				}
				return Term{S: r.S, T: t}
			}
		}
	case *ast.CompositeLit:
		val := u.eval(st, x)
		r := u.allocCell(st, val.T, val.S)
		return Term{S: r, T: t}
	}
	// interior pointer (&x.f, &s[i]) or address of a global: a fresh cell initialised with the current
	// value; writes through it are not reflected in the container, so the container's heap is tainted.
	val := u.eval(st, e.X)
	u.unsupportedf(e.Pos(), "interior pointer %s: container heap marked unknown", u.exprText(e))
	u.taintContainer(st, e.X)
	pt, ok := t.Underlying().(*types.Pointer)
	if !ok {
		return u.freshOf(st, t, "addr")
	}
	r := u.allocCell(st, pt.Elem(), val.S)
	return Term{S: r, T: t}
}

func (u *Unit) taintContainer(st *State, x ast.Expr) {
	switch x := ast.Unparen(x).(type) {
	case *ast.IndexExpr:
		if xt := u.typeOf(x.X); xt != nil {
			if sl, ok := xt.Underlying().(*types.Slice); ok {
				st.tainted[u.elemHeap(sl.Elem())] = true
			}
		}
	case *ast.SelectorExpr:
		if xt := u.typeOf(x.X); xt != nil {
			if pt, ok := xt.Underlying().(*types.Pointer); ok {
				st.tainted[u.ptrHeap(pt.Elem())] = true
			} else {
				u.taintContainer(st, x.X)
			}
		}
	}
}

func (u *Unit) evalBinary(st *State, e *ast.BinaryExpr) Term {
	switch e.Op {
	case token.LAND, token.LOR:
		a := u.eval(st, e.X)
		n := len(st.pc)
		g := a.S
		if e.Op == token.LOR {
			g = not(a.S)
		}
		st.pc = append(st.pc, g)
		allocBefore := st.alloc
		b := u.eval(st, e.Y)
		// re-guard assumptions made while evaluating the right operand
		extra := append([]string(nil), st.pc[n+1:]...)
		st.pc = st.pc[:n]
		for _, x := range extra {
			st.assume(implies(g, x))
		}
		if st.alloc != allocBefore {
			// the allocation counter only grows, also on the path that skips the right operand
			st.assume("(>= " + st.alloc + " " + allocBefore + ")")
		}
		if e.Op == token.LAND {
			return Term{S: and(a.S, b.S), T: u.typeOf(e)}
		}
		return Term{S: or(a.S, b.S), T: u.typeOf(e)}
	}
	a := u.eval(st, e.X)
	b := u.eval(st, e.Y)
	return u.binop(st, e.Op, a, b, u.typeOf(e), e, false)
}

// binop implements Go's binary operators on symbolic terms. spec=true: contract arithmetic.
func (u *Unit) binop(st *State, op token.Token, a, b Term, rt types.Type, at ast.Node, spec bool) Term {
	c := u.c
	// operand type
	ot := a.T
	if ot == nil || (a.K != nil && b.T != nil && isUntypedConst(a)) {
		ot = b.T
	}
	if op == token.SHL || op == token.SHR {
		ot = a.T
		if ot == nil {
			ot = rt
		}
	}
	// untyped-constant folding
	if a.T == nil && b.T == nil && a.K != nil && b.K != nil {
		if r, ok := foldConst(op, a.K, b.K); ok {
			return r
		}
	}
	switch op {
	case token.EQL, token.NEQ:
		a, b = u.unify(a, b)
		r := eq(a.S, b.S)
		if a.T != nil {
			r = u.equalTerms(st, a, b)
		}
		if op == token.NEQ {
			r = not(r)
		}
		return Term{S: r, T: types.Typ[types.Bool]}
	case token.LSS, token.LEQ, token.GTR, token.GEQ:
		a, b = u.unify(a, b)
		t := a.T
		if t == nil {
			t = types.Typ[types.Int]
		}
		_, signed, ok := intInfo(t)
		if !ok {
			if isStringType(t) {
				u.c.declareFun("gstr.lt", "(Str Str) Bool")
				switch op {
				case token.LSS:
					return Term{S: fmt.Sprintf("(gstr.lt %s %s)", a.S, b.S), T: types.Typ[types.Bool]}
				case token.GTR:
					return Term{S: fmt.Sprintf("(gstr.lt %s %s)", b.S, a.S), T: types.Typ[types.Bool]}
				}
			}
			f := u.c.fresh("cmp", "Bool")
			u.unsupportedf(at.Pos(), "comparison on non-integer operands abstracted")
			return Term{S: f, T: types.Typ[types.Bool]}
		}
		var o string
		if c.bv {
			switch op {
			case token.LSS:
				o = "bvult"
			case token.LEQ:
				o = "bvule"
			case token.GTR:
				o = "bvugt"
			case token.GEQ:
				o = "bvuge"
			}
			if signed {
				o = strings.Replace(o, "bvu", "bvs", 1)
			}
		} else {
			o = map[token.Token]string{token.LSS: "<", token.LEQ: "<=", token.GTR: ">", token.GEQ: ">="}[op]
		}
		return Term{S: fmt.Sprintf("(%s %s %s)", o, a.S, b.S), T: types.Typ[types.Bool]}
	}
	if ot == nil {
		ot = rt
	}
	if ot == nil {
		ot = types.Typ[types.Int]
	}
	if a.K != nil && b.K != nil {
		if bits, signed, ok := intInfo(ot); ok {
			if r, ok := foldConst(op, a.K, b.K); ok && r.K != nil {
				k := wrapBig(r.K, bits, signed)
				return Term{S: c.constInt(k, bits, signed), T: ot, K: k}
			}
		}
	}
	if isStringType(ot) && op == token.ADD {
		a, b = u.unify(a, b)
		u.c.declareFun("gstr.cat", "(Str Str) Str")
		r := Term{S: fmt.Sprintf("(gstr.cat %s %s)", a.S, b.S), T: ot}
		if st != nil {
			st.assume(eq("(gstr.len "+r.S+")", c.idxAdd("(gstr.len "+a.S+")", "(gstr.len "+b.S+")")))
		}
		return r
	}
	bits, signed, ok := intInfo(ot)
	if !ok {
		if st != nil {
			u.unsupportedf(at.Pos(), "operator %s on %s abstracted", op, ot)
			return u.freshOf(st, ot, "op")
		}
		return Term{S: u.c.fresh("op", u.c.sortOf(ot)), T: ot}
	}
	if op != token.SHL && op != token.SHR {
		a = u.materialize(a, ot)
		b = u.materialize(b, ot)
	} else {
		a = u.materialize(a, ot)
	}
	res := Term{T: ot}
	mathInt := spec && !c.bv && isPlainInt(ot)
	wrap := func(x string) string {
		if mathInt {
			return x
		}
		return c.wrapInt(x, bits, signed)
	}
	if c.bv {
		switch op {
		case token.ADD:
			res.S = fmt.Sprintf("(bvadd %s %s)", a.S, b.S)
		case token.SUB:
			res.S = fmt.Sprintf("(bvsub %s %s)", a.S, b.S)
		case token.MUL:
			res.S = fmt.Sprintf("(bvmul %s %s)", a.S, b.S)
		case token.QUO, token.REM:
			if st != nil && !spec {
				u.emit(st, "safety", u.safetyName("div", u.exprText(at)), "division by zero", at.Pos(), not(eq(b.S, c.constInt(big.NewInt(0), bits, signed))))
				st.assume(not(eq(b.S, c.constInt(big.NewInt(0), bits, signed))))
			}
			o := map[bool]map[token.Token]string{false: {token.QUO: "bvudiv", token.REM: "bvurem"}, true: {token.QUO: "bvsdiv", token.REM: "bvsrem"}}[signed][op]
			res.S = fmt.Sprintf("(%s %s %s)", o, a.S, b.S)
		case token.AND:
			res.S = fmt.Sprintf("(bvand %s %s)", a.S, b.S)
		case token.OR:
			res.S = fmt.Sprintf("(bvor %s %s)", a.S, b.S)
		case token.XOR:
			res.S = fmt.Sprintf("(bvxor %s %s)", a.S, b.S)
		case token.AND_NOT:
			res.S = fmt.Sprintf("(bvand %s (bvnot %s))", a.S, b.S)
		case token.SHL, token.SHR:
			sh := u.shiftAmount(b, bits)
			o := "bvshl"
			if op == token.SHR {
				o = "bvlshr"
				if signed {
					o = "bvashr"
				}
			}
			res.S = fmt.Sprintf("(%s %s %s)", o, a.S, sh)
		default:
			return u.opaqueOp(st, ot, at)
		}
		return res
	}
	// int mode
	switch op {
	case token.ADD:
		res.S = wrap(fmt.Sprintf("(+ %s %s)", a.S, b.S))
		u.overflowCheck(st, fmt.Sprintf("(+ %s %s)", a.S, b.S), bits, signed, at, spec, ot)
	case token.SUB:
		res.S = wrap(fmt.Sprintf("(- %s %s)", a.S, b.S))
		u.overflowCheck(st, fmt.Sprintf("(- %s %s)", a.S, b.S), bits, signed, at, spec, ot)
	case token.MUL:
		res.S = wrap(fmt.Sprintf("(* %s %s)", a.S, b.S))
		u.overflowCheck(st, fmt.Sprintf("(* %s %s)", a.S, b.S), bits, signed, at, spec, ot)
	case token.QUO, token.REM:
		if st != nil && !spec {
			u.emit(st, "safety", u.safetyName("div", u.exprText(at)), "division by zero", at.Pos(), not(eq(b.S, "0")))
			st.assume(not(eq(b.S, "0")))
		}
		var q string
		if !signed || mathInt {
			q = fmt.Sprintf("(div %s %s)", a.S, b.S)
		} else {
			q = fmt.Sprintf("(ite (>= %s 0) (ite (> %s 0) (div %s %s) (- (div %s (- %s)))) (ite (> %s 0) (- (div (- %s) %s)) (div (- %s) (- %s))))",
				a.S, b.S, a.S, b.S, a.S, b.S, b.S, a.S, b.S, a.S, b.S)
		}
		if op == token.QUO {
			res.S = wrap(q)
		} else {
			if !signed || mathInt {
				res.S = fmt.Sprintf("(mod %s %s)", a.S, b.S)
			} else {
				res.S = fmt.Sprintf("(- %s (* %s %s))", a.S, b.S, q)
			}
		}
	case token.SHL:
		if b.K != nil && b.K.IsInt64() && b.K.Int64() >= 0 && b.K.Int64() < 256 {
			m := pow2(int(b.K.Int64()))
			res.S = wrap(fmt.Sprintf("(* %s %s)", a.S, m.String()))
			u.overflowCheck(st, fmt.Sprintf("(* %s %s)", a.S, m.String()), bits, signed, at, spec, ot)
		} else {
			return u.opaqueOp(st, ot, at)
		}
	case token.SHR:
		if b.K != nil && b.K.IsInt64() && b.K.Int64() >= 0 && b.K.Int64() < 256 {
			m := pow2(int(b.K.Int64()))
			res.S = fmt.Sprintf("(div %s %s)", a.S, m.String())
		} else {
			return u.opaqueOp(st, ot, at)
		}
	case token.AND:
		// x & (2^k-1) for non-negative x
		if k, ok := maskBits(b.K); ok && !signed {
			res.S = fmt.Sprintf("(mod %s %s)", a.S, pow2(k).String())
		} else if k, ok := maskBits(a.K); ok && !signed {
			res.S = fmt.Sprintf("(mod %s %s)", b.S, pow2(k).String())
		} else {
			r := u.opaqueOp(st, ot, at)
			if st != nil && !signed {
				st.assume(and("(<= "+r.S+" "+a.S+")", "(<= "+r.S+" "+b.S+")"))
			}
			return r
		}
	case token.OR:
		// (x<<k) | c with c < 2^k
		if be, ok := at.(*ast.BinaryExpr); ok && b.K != nil {
			if k, ok := u.shlConst(be.X); ok && b.K.Sign() >= 0 && b.K.Cmp(pow2(k)) < 0 {
				res.S = wrap(fmt.Sprintf("(+ %s %s)", a.S, b.S))
				return res
			}
		}
		r := u.opaqueOp(st, ot, at)
		if st != nil && !signed {
			st.assume(and("(>= "+r.S+" "+a.S+")", "(>= "+r.S+" "+b.S+")", "(<= "+r.S+" (+ "+a.S+" "+b.S+"))"))
		}
		return r
	default:
		return u.opaqueOp(st, ot, at)
	}
	return res
}

func isPlainInt(t types.Type) bool {
	b, ok := t.Underlying().(*types.Basic)
	return ok && (b.Kind() == types.Int || b.Kind() == types.UntypedInt)
}

func isUntypedConst(t Term) bool { return t.T == nil && t.K != nil }

func maskBits(k *big.Int) (int, bool) {
	if k == nil || k.Sign() <= 0 {
		return 0, false
	}
	n := new(big.Int).Add(k, big.NewInt(1))
	if n.BitLen() > 0 && new(big.Int).And(n, k).Sign() == 0 {
		return n.BitLen() - 1, true
	}
	return 0, false
}

func (u *Unit) shlConst(e ast.Expr) (int, bool) {
	be, ok := ast.Unparen(e).(*ast.BinaryExpr)
	if !ok || be.Op != token.SHL {
		return 0, false
	}
	if tv, ok := u.info.Types[be.Y]; ok && tv.Value != nil {
		if v, ok := constant.Int64Val(tv.Value); ok && v >= 1 && v < 64 {
			return int(v), true
		}
	}
	if bl, ok := be.Y.(*ast.BasicLit); ok {
		var v int
		if _, err := fmt.Sscanf(bl.Value, "%d", &v); err == nil && v >= 1 && v < 64 {
			return v, true
		}
	}
	return 0, false
}

func (u *Unit) opaqueOp(st *State, t types.Type, at ast.Node) Term {
	if st != nil {
		u.unsupportedf(at.Pos(), "bit operation not expressible in int mode: %s", u.exprText(at))
		return u.freshOf(st, t, "bitop")
	}
	return Term{S: u.c.fresh("bitop", u.c.sortOf(t)), T: t}
}

func (u *Unit) overflowCheck(st *State, math string, bits int, signed bool, at ast.Node, spec bool, ot types.Type) {
	if st == nil || spec || u.ct == nil || !u.ct.CheckOverflow {
		return
	}
	// `check overflow` is about arithmetic on fixed-width values that come from outside (uint64 slots, offsets, sizes);
	// platform-sized int/uint counters of in-memory objects (range indices, sums of lengths) are not checked: they are
	// bounded by the address space, not by anything a contract could state (listed as an assumption in the evidence)
	if b, ok := ot.Underlying().(*types.Basic); ok {
		switch b.Kind() {
		case types.Int, types.Uint, types.Uintptr, types.UntypedInt:
			return
		}
	}
	u.emit(st, "overflow", u.safetyName("overflow", u.exprText(at)), "no overflow: "+u.exprText(at), at.Pos(), u.c.inRange(math, bits, signed))
}

func (u *Unit) shiftAmount(b Term, bits int) string {
	// convert shift count to the width of the shifted operand, saturating
	if b.K != nil {
		if b.K.Sign() < 0 || b.K.Cmp(big.NewInt(int64(bits))) >= 0 {
			return u.c.constInt(big.NewInt(int64(bits)), bits, false)
		}
		return u.c.constInt(b.K, bits, false)
	}
	bb := 64
	if b.T != nil {
		if x, _, ok := intInfo(b.T); ok {
			bb = x
		}
	}
	switch {
	case bb == bits:
		return b.S
	case bb < bits:
		return fmt.Sprintf("((_ zero_extend %d) %s)", bits-bb, b.S)
	default:
		lim := fmt.Sprintf("(_ bv%d %d)", bits, bb)
		return fmt.Sprintf("(ite (bvuge %s %s) (_ bv%d %d) ((_ extract %d 0) %s))", b.S, lim, bits, bits, bits-1, b.S)
	}
}

func foldConst(op token.Token, a, b *big.Int) (Term, bool) {
	r := new(big.Int)
	switch op {
	case token.ADD:
		r.Add(a, b)
	case token.SUB:
		r.Sub(a, b)
	case token.MUL:
		r.Mul(a, b)
	case token.QUO:
		if b.Sign() == 0 {
			return Term{}, false
		}
		r.Quo(a, b)
	case token.REM:
		if b.Sign() == 0 {
			return Term{}, false
		}
		r.Rem(a, b)
	case token.SHL:
		r.Lsh(a, uint(b.Int64()))
	case token.SHR:
		r.Rsh(a, uint(b.Int64()))
	case token.EQL:
		return boolTerm(a.Cmp(b) == 0), true
	case token.NEQ:
		return boolTerm(a.Cmp(b) != 0), true
	case token.LSS:
		return boolTerm(a.Cmp(b) < 0), true
	case token.LEQ:
		return boolTerm(a.Cmp(b) <= 0), true
	case token.GTR:
		return boolTerm(a.Cmp(b) > 0), true
	case token.GEQ:
		return boolTerm(a.Cmp(b) >= 0), true
	default:
		return Term{}, false
	}
	return Term{S: smtInt(r), K: r}, true
}

func wrapBig(v *big.Int, bits int, signed bool) *big.Int {
	m := new(big.Int).Mod(v, pow2(bits))
	if signed && m.Cmp(pow2(bits-1)) >= 0 {
		m.Sub(m, pow2(bits))
	}
	return m
}

func boolTerm(b bool) Term {
	if b {
		return Term{S: "true", T: types.Typ[types.Bool]}
	}
	return Term{S: "false", T: types.Typ[types.Bool]}
}

// materialize gives an untyped constant the representation of type t.
func (u *Unit) materialize(a Term, t types.Type) Term {
	if a.T == nil && a.K != nil && t != nil {
		if bits, signed, ok := intInfo(t); ok {
			return Term{S: u.c.constInt(a.K, bits, signed), T: t, K: a.K}
		}
	}
	if a.T == nil && t != nil && a.K == nil && !a.Bool && a.Spec == "" {
		// spec-level mathematical int used at a Go type
		if bits, _, ok := intInfo(t); ok && u.c.bv {
			_ = bits
		}
		a.T = t
	}
	return a
}

func (u *Unit) unify(a, b Term) (Term, Term) {
	if a.T == nil && b.T != nil {
		a = u.materialize(a, b.T)
	} else if b.T == nil && a.T != nil {
		b = u.materialize(b, a.T)
	} else if a.T != nil && b.T != nil {
		// untyped nil / interface comparisons
		if isNilTerm(a) {
			a = u.zeroOf(b.T)
		} else if isNilTerm(b) {
			b = u.zeroOf(a.T)
		}
	}
	return a, b
}

func isNilTerm(t Term) bool {
	if t.T == nil {
		return false
	}
	b, ok := t.T.(*types.Basic)
	return ok && b.Kind() == types.UntypedNil
}

// equalTerms: == on Go values (structs/arrays compare by value).
func (u *Unit) equalTerms(st *State, a, b Term) string {
	if a.T != nil && b.T != nil {
		as, bs := u.c.sortOf(a.T), u.c.sortOf(b.T)
		if as != bs {
			// interface vs concrete comparison etc.
			if st != nil {
				u.c.note("comparison between different sorts %s and %s abstracted", as, bs)
			}
			return u.c.fresh("eq", "Bool")
		}
	}
	return eq(a.S, b.S)
}

// convertInt converts an integer term to integer type `to`.
func (u *Unit) convertInt(a Term, to types.Type) Term {
	c := u.c
	tb, ts, ok := intInfo(to)
	if !ok {
		return Term{S: a.S, T: to}
	}
	if a.K != nil {
		k := wrapBig(a.K, tb, ts)
		return Term{S: c.constInt(k, tb, ts), T: to, K: k}
	}
	fb, fs := 64, true
	if a.T != nil {
		if b, s, ok := intInfo(a.T); ok {
			fb, fs = b, s
		} else {
			return Term{S: a.S, T: to}
		}
	}
	if c.bv {
		switch {
		case tb == fb:
			return Term{S: a.S, T: to, K: a.K}
		case tb < fb:
			return Term{S: fmt.Sprintf("((_ extract %d 0) %s)", tb-1, a.S), T: to}
		default:
			ext := "zero_extend"
			if fs {
				ext = "sign_extend"
			}
			return Term{S: fmt.Sprintf("((_ %s %d) %s)", ext, tb-fb, a.S), T: to}
		}
	}
	// int mode: value preserved when it fits, else wrapped
	flo, fhi := intRange(fb, fs)
	tlo, thi := intRange(tb, ts)
	if flo.Cmp(tlo) >= 0 && fhi.Cmp(thi) <= 0 && a.T != nil {
		return Term{S: a.S, T: to, K: a.K}
	}
	return Term{S: c.wrapInt(a.S, tb, ts), T: to}
}

func (u *Unit) evalCompositeLit(st *State, e *ast.CompositeLit) Term {
	t := u.typeOf(e)
	if t == nil {
		return u.abstractExpr(st, e, "composite literal")
	}
	switch ut := t.Underlying().(type) {
	case *types.Struct:
		cur := u.zeroOf(t)
		for i, el := range e.Elts {
			if kv, ok := el.(*ast.KeyValueExpr); ok {
				id, ok := kv.Key.(*ast.Ident)
				if !ok {
					return u.abstractExpr(st, e, "composite literal key")
				}
				idx := -1
				for k := 0; k < ut.NumFields(); k++ {
					if ut.Field(k).Name() == id.Name {
						idx = k
					}
				}
				if idx < 0 {
					return u.abstractExpr(st, e, "composite literal field")
				}
				v := u.evalAs(st, kv.Value, ut.Field(idx).Type())
				cur = u.fieldSet(cur, idx, v.S)
			} else {
				v := u.evalAs(st, el, ut.Field(i).Type())
				cur = u.fieldSet(cur, i, v.S)
			}
		}
		cur.T = t
		return cur
	case *types.Array:
		arr := u.zeroOf(t).S
		idx := int64(0)
		for _, el := range e.Elts {
			if kv, ok := el.(*ast.KeyValueExpr); ok {
				k, ok := u.eng.constOf(kv.Key)
				if !ok {
					return u.abstractExpr(st, e, "array literal key")
				}
				idx = k.Int64()
				el = kv.Value
			}
			v := u.evalAs(st, el, ut.Elem())
			arr = fmt.Sprintf("(store %s %s %s)", arr, u.c.idxConst(idx), v.S)
			idx++
		}
		return Term{S: arr, T: t}
	case *types.Slice:
		n := int64(0)
		content := u.zeroOf(types.NewArray(ut.Elem(), 0)).S
		for _, el := range e.Elts {
			if kv, ok := el.(*ast.KeyValueExpr); ok {
				k, ok := u.eng.constOf(kv.Key)
				if !ok {
					return u.abstractExpr(st, e, "slice literal key")
				}
				n = k.Int64()
				el = kv.Value
			}
			v := u.evalAs(st, el, ut.Elem())
			content = fmt.Sprintf("(store %s %s %s)", content, u.c.idxConst(n), v.S)
			n++
		}
		r := u.allocBlock(st, ut.Elem(), content)
		ln := u.c.idxConst(n)
		return Term{S: fmt.Sprintf("(mk_slice %s %s %s %s)", r, u.c.idxConst(0), ln, ln), T: t}
	case *types.Map:
		m := u.newMap(st, ut)
		for _, el := range e.Elts {
			kv, ok := el.(*ast.KeyValueExpr)
			if !ok {
				continue
			}
			k := u.evalAs(st, kv.Key, ut.Key())
			v := u.evalAs(st, kv.Value, ut.Elem())
			u.mapStore(st, Term{S: m, T: t}, k, v, ut)
		}
		return Term{S: m, T: t}
	}
	return u.abstractExpr(st, e, "composite literal")
}

// evalAs evaluates e and converts the result for assignment to a location of type t
// (untyped constants, nil, concrete value into interface).
func (u *Unit) evalAs(st *State, e ast.Expr, t types.Type) Term {
	if cl, ok := e.(*ast.CompositeLit); ok && cl.Type == nil {
		// elided type in nested literal
		if _, known := u.info.Types[e]; !known {
			return u.abstractExpr(st, e, "elided composite literal")
		}
	}
	v := u.eval(st, e)
	return u.coerce(st, v, t)
}

func (u *Unit) coerce(st *State, v Term, t types.Type) Term {
	if v.IsTuple() || t == nil {
		return v
	}
	if v.T == nil {
		return u.materialize(v, t)
	}
	if isNilTerm(v) {
		return u.zeroOf(t)
	}
	if _, isTP := t.(*types.TypeParam); isTP {
		return v // generic parameter: the value keeps its own representation
	}
	if types.IsInterface(t) && !types.IsInterface(v.T) {
		return u.toInterface(st, v, t)
	}
	if types.IsInterface(t) && types.IsInterface(v.T) && u.c.sortOf(t) != u.c.sortOf(v.T) {
		return u.toInterface(st, v, t)
	}
	v.T = t
	return v
}
