package main

// Replay scenario for C09 (obligation pre((*MultiEpoch).GetEpochNumbers)#0 in GetMostRecentAvailableEpoch /
// GetOldestAvailableEpoch): a reader re-acquires the epoch-set RWMutex while a writer is queued -> deadlock.
// Injected with `go test -overlay`; prints REPLAY-DEADLOCK when the watchdog fires.

import (
	"fmt"
	"sync/atomic"
	"testing"
	"time"
)

func TestVerifScenarioC09NestedRLock(t *testing.T) {
	m := NewMultiEpoch(&Options{})
	_ = m.AddEpoch(1, &Epoch{})
	var reads, writes atomic.Int64
	stop := make(chan struct{})
	for g := 0; g < 4; g++ {
		go func() {
			for {
				select {
				case <-stop:
					return
				default:
				}
				m.GetMostRecentAvailableEpoch()
				m.GetOldestAvailableEpoch()
				reads.Add(1)
			}
		}()
	}
	go func() {
		for i := uint64(2); ; i++ {
			select {
			case <-stop:
				return
			default:
			}
			_ = m.AddEpoch(i, &Epoch{})
			m.mu.Lock()
			delete(m.epochs, i)
			m.mu.Unlock()
			writes.Add(1)
		}
	}()
	deadline := time.Now().Add(20 * time.Second)
	lastR, lastW := int64(-1), int64(-1)
	stalled := 0
	for time.Now().Before(deadline) {
		time.Sleep(500 * time.Millisecond)
		r, w := reads.Load(), writes.Load()
		if r == lastR && w == lastW {
			stalled++
			if stalled >= 4 {
				fmt.Printf("REPLAY-DEADLOCK: no progress for 2s (reads=%d writes=%d)\n", r, w)
				return
			}
		} else {
			stalled = 0
		}
		lastR, lastW = r, w
	}
	close(stop)
	fmt.Printf("REPLAY-NO-DEADLOCK reads=%d writes=%d\n", reads.Load(), writes.Load())
}
