package main

// C08 replay fixture (ct-c08b): a REAL tiny epoch-0 archive assembled from caller-supplied blocks, so that a test can put
// crafted (malformed, inconsistent, dangling) archived data behind the real JSON-RPC / gRPC handlers.
//
// The CAR is written by hand (Transaction, Entry, Rewards and Block nodes encoded with the repository's own MarshalCBOR),
// the slot-to-cid / sig-to-cid / cid-to-offset-and-size indexes with the repository's writers, and the &Epoch{...} is wired
// the way NewEpochFromConfig wires a "remote CAR + new-format indexes" epoch. (Builder derived from
// /verif/replay/manual/ct-c19/replay_test.go.)
//
// The handlers are called exactly as the server calls them: (*MultiEpoch).handleGetBlock / handleGetTransaction with a
// *jsonrpc2.Request and a requestContext around a fasthttp.RequestCtx; (*MultiEpoch).GetBlock with a protobuf request.
// A panic of the handler goroutine is caught by the test (in the server nothing catches it: the process dies).

import (
	"bytes"
	"context"
	"encoding/binary"
	"encoding/json"
	"fmt"
	"os"
	"path/filepath"
	"runtime/debug"
	"strings"
	"testing"

	"github.com/allegro/bigcache/v3"
	bin "github.com/gagliardetto/binary"
	"github.com/gagliardetto/solana-go"
	"github.com/ipfs/go-cid"
	"github.com/ipld/go-ipld-prime/datamodel"
	cidlink "github.com/ipld/go-ipld-prime/linking/cid"
	"github.com/rpcpool/yellowstone-faithful/blocktimeindex"
	hugecache "github.com/rpcpool/yellowstone-faithful/huge-cache"
	"github.com/rpcpool/yellowstone-faithful/indexes"
	"github.com/rpcpool/yellowstone-faithful/ipld/ipldbindcode"
	old_faithful_grpc "github.com/rpcpool/yellowstone-faithful/old-faithful-proto/old-faithful-grpc"
	"github.com/rpcpool/yellowstone-faithful/third_party/solana_proto/confirmed_block"
	"github.com/rpcpool/yellowstone-faithful/tooling"
	"github.com/sourcegraph/jsonrpc2"
	"github.com/valyala/fasthttp"
	"google.golang.org/protobuf/proto"
)

const c08bEpoch = uint64(0)

// one archived transaction: raw = bincode transaction bytes, meta = bytes stored in the Metadata frame (zstd(protobuf));
// dangling = the Entry links to a Transaction node that is NOT in the CAR / the index (lost or corrupt section)
type c08bTx struct {
	raw, meta []byte
	dangling  bool
}

// rewards = bytes stored in the Rewards node's data frame (zstd(protobuf Rewards)); nil = the block links to DummyCID
type c08bBlock struct {
	slot, parent uint64
	txs          []c08bTx
	rewards      []byte
}

type c08bFixture struct {
	epoch *Epoch
	multi *MultiEpoch
}

func c08bKey(tag byte) solana.PublicKey {
	var k solana.PublicKey
	for i := range k {
		k[i] = tag
	}
	return k
}

func c08bSig(i int) solana.Signature {
	var s solana.Signature
	for k := 0; k < 8; k++ {
		binary.LittleEndian.PutUint64(s[k*8:], uint64(i+1)*0x9E3779B97F4A7C15+uint64(k)*0xD1B54A32D192ED03+1)
	}
	return s
}

func c08bCidOf(t *testing.T, data []byte) cid.Cid {
	t.Helper()
	c, err := cid.Prefix{Version: 1, Codec: cid.DagCBOR, MhType: 0x12 /* sha2-256 */, MhLength: -1}.Sum(data)
	if err != nil {
		t.Fatal(err)
	}
	return c
}

func c08bZstd(t *testing.T, raw []byte) []byte {
	t.Helper()
	z, err := tooling.CompressZstd(raw)
	if err != nil {
		t.Fatal(err)
	}
	return z
}

// zstd(protobuf TransactionStatusMeta), as stored in the Metadata frame of a Transaction node
func c08bMeta(t *testing.T, m *confirmed_block.TransactionStatusMeta) []byte {
	t.Helper()
	raw, err := proto.Marshal(m)
	if err != nil {
		t.Fatal(err)
	}
	return c08bZstd(t, raw)
}

// zstd(protobuf Rewards), as stored in the data frame of a Rewards node
func c08bRewards(t *testing.T, r *confirmed_block.Rewards) []byte {
	t.Helper()
	raw, err := proto.Marshal(r)
	if err != nil {
		t.Fatal(err)
	}
	return c08bZstd(t, raw)
}

func c08bTxBytes(t *testing.T, tx *solana.Transaction) []byte {
	t.Helper()
	b, err := tx.MarshalBinary()
	if err != nil {
		t.Fatal(err)
	}
	return b
}

// a well-formed legacy transaction: one System-program transfer, signature c08bSig(n)
func c08bPlainTx(n int) *solana.Transaction {
	var payer solana.PublicKey
	payer[0] = 0x77
	binary.LittleEndian.PutUint64(payer[8:], uint64(n)+1)
	keys := solana.PublicKeySlice{payer, c08bKey(0xA1), solana.SystemProgramID}
	return &solana.Transaction{
		Signatures: []solana.Signature{c08bSig(n)},
		Message: solana.Message{
			Header:          solana.MessageHeader{NumRequiredSignatures: 1, NumReadonlyUnsignedAccounts: 1},
			AccountKeys:     keys,
			RecentBlockhash: solana.Hash{1, 2, 3},
			Instructions: []solana.CompiledInstruction{
				{ProgramIDIndex: 2, Accounts: []uint16{0, 1}, Data: []byte{2, 0, 0, 0, 1, 0, 0, 0, 0, 0, 0, 0}},
			},
		},
	}
}

func c08bPlainMeta() *confirmed_block.TransactionStatusMeta {
	return &confirmed_block.TransactionStatusMeta{Fee: 5000, PreBalances: []uint64{10000, 1, 1}, PostBalances: []uint64{5000, 1, 1}}
}

func c08bBuild(t *testing.T, blocks []c08bBlock) *c08bFixture {
	t.Helper()
	dir := t.TempDir()
	ctx := context.Background()
	fx := &c08bFixture{}

	type sec struct {
		c            cid.Cid
		offset, size uint64
	}
	var car bytes.Buffer
	var allSecs []sec
	writeSection := func(data []byte) sec {
		c := c08bCidOf(t, data)
		off := uint64(car.Len())
		var lb [binary.MaxVarintLen64]byte
		n := binary.PutUvarint(lb[:], uint64(len(c.Bytes())+len(data)))
		car.Write(lb[:n])
		car.Write(c.Bytes())
		car.Write(data)
		s := sec{c: c, offset: off, size: uint64(car.Len()) - off}
		allSecs = append(allSecs, s)
		return s
	}
	{
		hdr := []byte("\xa2eroots\x81\xd8\x2a\x45\x00\x01\x55\x00\x00gversion\x01") // {roots:[bafkqaaa], version:1}
		var lb [binary.MaxVarintLen64]byte
		n := binary.PutUvarint(lb[:], uint64(len(hdr)))
		car.Write(lb[:n])
		car.Write(hdr)
	}
	headerSize := uint64(car.Len())

	blockCids := map[uint64]cid.Cid{}
	sigCids := map[solana.Signature]cid.Cid{}
	var slots []uint64
	for _, bs := range blocks {
		var txLinks ipldbindcode.List__Link
		for pos, x := range bs.txs {
			p := pos
			pp := &p
			node := &ipldbindcode.Transaction{
				Kind:     0,
				Data:     ipldbindcode.DataFrame{Kind: 6, Data: x.raw},
				Metadata: ipldbindcode.DataFrame{Kind: 6, Data: x.meta},
				Slot:     int(bs.slot),
				Index:    &pp,
			}
			data, err := node.MarshalCBOR()
			if err != nil {
				t.Fatal(err)
			}
			if x.dangling {
				// the node exists only as a link target: no CAR section, no index entry
				txLinks = append(txLinks, datamodel.Link(cidlink.Link{Cid: c08bCidOf(t, data)}))
				continue
			}
			s := writeSection(data)
			var tx solana.Transaction
			if err := tx.UnmarshalWithDecoder(bin.NewBinDecoder(x.raw)); err == nil && len(tx.Signatures) > 0 {
				sigCids[tx.Signatures[0]] = s.c
			}
			txLinks = append(txLinks, datamodel.Link(cidlink.Link{Cid: s.c}))
		}
		h := make([]byte, 32)
		binary.LittleEndian.PutUint64(h, bs.slot)
		h[31] = 1
		en := &ipldbindcode.Entry{Kind: 1, NumHashes: 1, Hash: h, Transactions: txLinks}
		data, err := en.MarshalCBOR()
		if err != nil {
			t.Fatal(err)
		}
		es := writeSection(data)
		rewardsCid := DummyCID
		if bs.rewards != nil {
			rw := &ipldbindcode.Rewards{Kind: 5, Slot: int(bs.slot), Data: ipldbindcode.DataFrame{Kind: 6, Data: bs.rewards}}
			data, err := rw.MarshalCBOR()
			if err != nil {
				t.Fatal(err)
			}
			rewardsCid = writeSection(data).c
		}
		blk := &ipldbindcode.Block{
			Kind:    2,
			Slot:    int(bs.slot),
			Entries: ipldbindcode.List__Link{datamodel.Link(cidlink.Link{Cid: es.c})},
			Meta:    ipldbindcode.SlotMeta{Parent_slot: int(bs.parent), Blocktime: 1600000000 + int(bs.slot)},
			Rewards: cidlink.Link{Cid: rewardsCid},
		}
		data, err = blk.MarshalCBOR()
		if err != nil {
			t.Fatal(err)
		}
		s := writeSection(data)
		blockCids[bs.slot] = s.c
		slots = append(slots, bs.slot)
	}
	carPath := filepath.Join(dir, "epoch-0.car")
	if err := os.WriteFile(carPath, car.Bytes(), 0o644); err != nil {
		t.Fatal(err)
	}

	root := DummyCID
	var slotIdxPath, sigIdxPath, c2oPath string
	{
		w, err := indexes.NewWriter_SlotToCid(c08bEpoch, root, indexes.NetworkMainnet, "", uint64(len(blockCids)))
		if err != nil {
			t.Fatal(err)
		}
		for slot, c := range blockCids {
			if err := w.Put(slot, c); err != nil {
				t.Fatal(err)
			}
		}
		if err := w.Seal(ctx, dir); err != nil {
			t.Fatal(err)
		}
		slotIdxPath = w.GetFilepath()
		w.Close()
	}
	{
		n := uint64(len(sigCids))
		if n == 0 {
			n = 1
		}
		w, err := indexes.NewWriter_SigToCid(c08bEpoch, root, indexes.NetworkMainnet, "", n)
		if err != nil {
			t.Fatal(err)
		}
		for sig, c := range sigCids {
			if err := w.Put(sig, c); err != nil {
				t.Fatal(err)
			}
		}
		if len(sigCids) == 0 {
			if err := w.Put(c08bSig(999999), DummyCID); err != nil {
				t.Fatal(err)
			}
		}
		if err := w.Seal(ctx, dir); err != nil {
			t.Fatal(err)
		}
		sigIdxPath = w.GetFilepath()
		w.Close()
	}
	{
		w, err := indexes.NewWriter_CidToOffsetAndSize(c08bEpoch, root, indexes.NetworkMainnet, "", uint64(len(allSecs)))
		if err != nil {
			t.Fatal(err)
		}
		for _, s := range allSecs {
			if err := w.Put(s.c, s.offset, s.size); err != nil {
				t.Fatal(err)
			}
		}
		if err := w.Seal(ctx, dir); err != nil {
			t.Fatal(err)
		}
		c2oPath = w.GetFilepath()
		w.Close()
	}

	slotToCid, err := indexes.Open_SlotToCid(slotIdxPath)
	if err != nil {
		t.Fatal(err)
	}
	sigToCid, err := indexes.Open_SigToCid(sigIdxPath)
	if err != nil {
		t.Fatal(err)
	}
	cidToOas, err := indexes.Open_CidToOffsetAndSize(c2oPath)
	if err != nil {
		t.Fatal(err)
	}
	carFile, err := os.Open(carPath)
	if err != nil {
		t.Fatal(err)
	}
	cache, err := hugecache.NewWithConfig(ctx, bigcache.DefaultConfig(60e9))
	if err != nil {
		t.Fatal(err)
	}
	bti := blocktimeindex.NewForEpoch(c08bEpoch)
	for _, slot := range slots {
		if err := bti.Set(slot, 1600000000+int64(slot)); err != nil {
			t.Fatal(err)
		}
	}
	cfg := &Config{}
	cfg.Indexes.CidToOffsetAndSize.URI = URI(c2oPath)
	fx.epoch = &Epoch{
		epoch:                   c08bEpoch,
		config:                  cfg,
		remoteCarReader:         carFile,
		carHeaderSize:           headerSize,
		rootCid:                 root,
		cidToOffsetAndSizeIndex: cidToOas,
		slotToCidIndex:          slotToCid,
		sigToCidIndex:           sigToCid,
		blocktimeindex:          bti,
		allCache:                cache,
	}
	t.Cleanup(func() { slotToCid.Close(); sigToCid.Close(); cidToOas.Close(); carFile.Close() })
	fx.multi = NewMultiEpoch(&Options{EpochSearchConcurrency: 1})
	if err := fx.multi.AddEpoch(c08bEpoch, fx.epoch); err != nil {
		t.Fatal(err)
	}
	return fx
}

// outcome of one request: what the client gets, or the panic that kills the server
type c08bOutcome struct {
	panicked bool
	panicMsg string
	stack    string
	body     string // JSON-RPC: the HTTP response body written by the handler
	rpcErr   *jsonrpc2.Error
	err      error
}

func (o c08bOutcome) String() string {
	if o.panicked {
		return "PANIC: " + o.panicMsg
	}
	return fmt.Sprintf("rpcErr=%v err=%v body=%.200s", o.rpcErr, o.err, o.body)
}

func c08bGuard(o *c08bOutcome) {
	if r := recover(); r != nil {
		o.panicked = true
		o.panicMsg = fmt.Sprint(r)
		o.stack = string(debug.Stack())
	}
}

// where the panic was raised: first frame of package main in the stack
func (o c08bOutcome) site() string {
	lines := strings.Split(o.stack, "\n")
	for i, l := range lines {
		if strings.HasPrefix(l, "github.com/rpcpool/yellowstone-faithful.") && !strings.Contains(l, "c08b") && i+1 < len(lines) {
			return strings.TrimSpace(l) + " @ " + strings.TrimSpace(lines[i+1])
		}
	}
	return ""
}

// JSON-RPC: method with the given params array text, through the real per-method handler
func (fx *c08bFixture) jsonrpc(method, params string) (o c08bOutcome) {
	defer c08bGuard(&o)
	raw := json.RawMessage(params)
	req := &jsonrpc2.Request{Method: method, Params: &raw, ID: jsonrpc2.ID{Num: 1}}
	rc := &fasthttp.RequestCtx{}
	o.rpcErr, o.err = fx.multi.handleRequest(context.Background(), &requestContext{ctx: rc}, req)
	o.body = string(rc.Response.Body())
	return o
}

// gRPC GetBlock through the real service method
func (fx *c08bFixture) grpcGetBlock(slot uint64) (o c08bOutcome, resp *old_faithful_grpc.BlockResponse) {
	defer c08bGuard(&o)
	resp, o.err = fx.multi.GetBlock(context.Background(), &old_faithful_grpc.BlockRequest{Slot: slot})
	return o, resp
}

// a v0 transaction with the given address-table lookups; the instruction references static key 0 and the first looked-up key
func c08bV0Tx(n int, lookups []solana.MessageAddressTableLookup) *solana.Transaction {
	tx := c08bPlainTx(n)
	tx.Message.Instructions[0].Accounts = []uint16{0, 3}
	tx.Message.SetAddressTableLookups(lookups)
	return tx
}

func c08bKeyBytes(tags ...byte) [][]byte {
	var out [][]byte
	for _, g := range tags {
		k := c08bKey(g)
		out = append(out, k[:])
	}
	return out
}

// getTransaction and getBlock with encoding=jsonParsed for the transaction c08bSig(n) stored in block `slot`
func (fx *c08bFixture) jsonParsedBoth(n int, slot uint64) (getTx, getBlock c08bOutcome) {
	getTx = fx.jsonrpc("getTransaction", fmt.Sprintf(`[%q, {"encoding":"jsonParsed","maxSupportedTransactionVersion":0}]`, c08bSig(n).String()))
	getBlock = fx.jsonrpc("getBlock", fmt.Sprintf(`[%d, {"encoding":"jsonParsed","maxSupportedTransactionVersion":0}]`, slot))
	return
}
