//go:build !ffi
// +build !ffi

package txstatus

// Replay stand-in for txstatus-ffi.go (build tag ffi: cgo + the Rust solana_transaction_status wrapper, not buildable in the
// verification sandbox). It replaces txstatus-dummy.go via `go test -overlay` and differs from it in ONE point: IsEnabled()
// reports true, as in a production build with jsonParsed support, so that encoding=jsonParsed requests reach the Go code of
// package main that prepares the parser input (address tables, account keys). ParseInstruction still reports "not
// implemented"; compiledInstructionsToJsonParsed then takes its own fall-back path (the one the ffi build takes for every
// instruction the Rust parser does not know).

import (
	"encoding/json"
	"fmt"
)

func (inst Parameters) ParseInstruction() (json.RawMessage, error) {
	return nil, fmt.Errorf("not implemented")
}

func IsEnabled() bool {
	return true
}
