// Theory of the implicit (eytzinger / heap-ordered) binary tree: node k (1-based) has children 2k, 2k+1.
// In contracts `/` on int is floor division (SMT div); all uses are on non-negative values.

//@ spec func anc(j int, k int) bool = j >= 1 && j >= k && (j == k || anc(j/2, k))

//@ lemma ancRoot(j int)
//@   requires j >= 1
//@   ensures anc(j, 1)
//@   decreases j
//@   induct ancRoot(j/2)
//@   use unfold(anc(j, 1))

//@ lemma ancSplit(j int, k int)
//@   requires j > k && k >= 1
//@   ensures anc(j, k) <==> (anc(j, 2*k) || anc(j, 2*k+1))
//@   decreases j
//@   induct ancSplit(j/2, k)
//@   use unfold(anc(j, k)) && unfold(anc(j, 2*k)) && unfold(anc(j, 2*k+1)) && unfold(anc(j/2, k)) && unfold(anc(j/2, 2*k)) && unfold(anc(j/2, 2*k+1))

//@ lemma ancBelow(j int, k int)
//@   requires j < k
//@   ensures !anc(j, k)
//@   use unfold(anc(j, k))

//@ lemma ancSelf(k int)
//@   requires k >= 1
//@   ensures anc(k, k)
//@   use unfold(anc(k, k))

// ---- eytzinger layout: subtree sizes and in-order ranks of the implicit tree with n nodes ----
// sz(n, k)   = number of nodes of the subtree rooted at k (0 when k > n).
// lo(n, k)   = in-order rank (0-based) of the first node of the subtree rooted at k.
// rank(n, k) = in-order rank of node k itself = lo(n, k) + sz(n, 2k): the index of the ascending input that
//              eytzinger(in, out, 0, 1) stores in out[k-1].

//@ spec func sz(n int, k int) int = ite(k >= 1 && k <= n, 1 + sz(n, 2*k) + sz(n, 2*k+1), 0)
//@ spec func lo(n int, k int) int = ite(k <= 1, 0, ite(k % 2 == 0, lo(n, k/2), lo(n, k/2) + sz(n, k-1) + 1))
//@ spec func rank(n int, k int) int = lo(n, k) + sz(n, 2*k)

//@ lemma szNonneg(n int, k int)
//@   requires k >= 1
//@   ensures sz(n, k) >= 0
//@   decreases ite(k <= n, n + 1 - k, 0)
//@   induct szNonneg(n, 2*k)
//@   induct szNonneg(n, 2*k+1)
//@   use unfold(sz(n, k))

//@ lemma ancDisjoint(j int, k int)
//@   requires k >= 1
//@   ensures !(anc(j, 2*k) && anc(j, 2*k+1))
//@   decreases ite(j >= 0, j, 0)
//@   induct ancDisjoint(j/2, k)
//@   use unfold(anc(j, 2*k)) && unfold(anc(j, 2*k+1)) && unfold(anc(j/2, 2*k)) && unfold(anc(j/2, 2*k+1))

// Adding node n to the tree adds one node to exactly the subtrees of its ancestors.
//@ lemma szStep(n int, k int)
//@   requires n >= 1 && k >= 1
//@   ensures sz(n, k) == sz(n-1, k) + ite(anc(n, k), 1, 0)
//@   decreases ite(k <= n, n + 1 - k, 0)
//@   induct szStep(n, 2*k)
//@   induct szStep(n, 2*k+1)
//@   use unfold(sz(n, k)) && unfold(sz(n-1, k)) && unfold(anc(n, k)) && ancDisjoint(n, k) && (n > k ==> ancSplit(n, k))
//@   use unfold(sz(n, 2*k)) && unfold(sz(n, 2*k+1)) && unfold(sz(n-1, 2*k)) && unfold(sz(n-1, 2*k+1))

//@ lemma szRoot(n int)
//@   requires n >= 0
//@   ensures sz(n, 1) == n
//@   decreases n
//@   induct szRoot(n-1)
//@   use unfold(sz(n, 1)) && (n >= 1 ==> szStep(n, 1)) && (n >= 1 ==> ancRoot(n))

// Nesting: the in-order ranks of the subtree of j lie inside those of any ancestor k.
//@ lemma loRange(n int, j int, k int)
//@   requires k >= 1 && j <= n && anc(j, k)
//@   ensures lo(n, k) <= lo(n, j) && lo(n, j) + sz(n, j) <= lo(n, k) + sz(n, k)
//@   decreases ite(j >= 0, j, 0)
//@   induct loRange(n, j/2, k)
//@   use unfold(anc(j, k)) && unfold(lo(n, j)) && unfold(sz(n, j/2)) && szNonneg(n, j) && szNonneg(n, 2*(j/2)) && szNonneg(n, 2*(j/2)+1)

// Search-tree order of the ranks: every node below the left child of k has a smaller rank than k, every node below
// the right child a larger one.
//@ lemma eytzOrder(n int, j int, k int)
//@   requires k >= 1 && k <= n && 1 <= j && j <= n
//@   ensures anc(j, 2*k) ==> lo(n, j) + sz(n, 2*j) < lo(n, k) + sz(n, 2*k)
//@   ensures anc(j, 2*k+1) ==> lo(n, j) + sz(n, 2*j) > lo(n, k) + sz(n, 2*k)
//@   use (anc(j, 2*k) ==> loRange(n, j, 2*k)) && (anc(j, 2*k+1) ==> loRange(n, j, 2*k+1))
//@   use unfold(sz(n, j)) && unfold(lo(n, 2*k)) && unfold(lo(n, 2*k+1)) && szNonneg(n, 2*j) && szNonneg(n, 2*j+1)

// Every node has a rank inside the input.
//@ lemma rankRange(n int, j int)
//@   requires 1 <= j && j <= n
//@   ensures 0 <= rank(n, j) && rank(n, j) < n
//@   use ancRoot(j) && loRange(n, j, 1) && szRoot(n) && unfold(lo(n, 1)) && unfold(sz(n, j)) && szNonneg(n, 2*j) && szNonneg(n, 2*j+1)

// The layout of a strictly ascending sequence is a binary search tree: with seqH(s, p) the key at index p of an
// (abstract) strictly ascending sequence s of length n, and H(j) = seqH(s, rank(n, j)) the key that eytzinger stores in
// node j, H(j) < H(k) below the left child of k and H(j) > H(k) below the right child. These are exactly the two
// order hypotheses of searchEytzinger.
//@ spec func seqH(s int, p int) int
//@ lemma eytzBST(s int, n int, j int, k int)
//@   requires k >= 1 && k <= n && 1 <= j && j <= n
//@   requires forall p, q int :: 0 <= p && p < q && q < n ==> seqH(s, p) < seqH(s, q)
//@   ensures anc(j, 2*k) ==> seqH(s, rank(n, j)) < seqH(s, rank(n, k))
//@   ensures anc(j, 2*k+1) ==> seqH(s, rank(n, j)) > seqH(s, rank(n, k))
//@   use eytzOrder(n, j, k) && rankRange(n, j) && rankRange(n, k)
