#!/usr/bin/env python3
"""stability.py <PROP>... [--seeds 1,2,3] [--slow SECONDS] [--apply]

Maintenance tool (never run by a check). Runs the quick check of each property on the PINNED tree under several solver
seeds and reports every claimed obligation that, under ANY seed, was not discharged at the first attempt or took longer
than --slow seconds. With --apply those obligations are added to the `slow` patterns of their unit in props/<PROP>.json:
they stay claimed by the thorough tier (60 s budget) and are listed in the quick evidence under `thorough_tier_only`.
An obligation that is never discharged under any seed is NOT touched (it must be triaged: defect / contract / engine).
"""
import json, os, subprocess, sys

def main():
    args = sys.argv[1:]
    seeds = [1, 2, 3]
    slow = 6.0
    apply = False
    if '--seeds' in args:
        i = args.index('--seeds'); seeds = [int(x) for x in args[i+1].split(',')]; del args[i:i+2]
    if '--slow' in args:
        i = args.index('--slow'); slow = float(args[i+1]); del args[i:i+2]
    if '--apply' in args:
        args.remove('--apply'); apply = True
    vd = os.path.dirname(os.path.dirname(os.path.abspath(__file__)))
    for prop in args:
        worst = {}
        never = {}
        for s in seeds:
            env = dict(os.environ, VERIF_SEED=str(s), VERIF_TIER='quick')
            r = subprocess.run([os.path.join(vd, 'bin', 'vcgo'), 'check', prop], cwd=vd, env=env, capture_output=True, text=True)
            last = (r.stdout.strip().splitlines() or [''])[-1]
            print('%s seed=%d rc=%d %s' % (prop, s, r.returncode, last[:140]), flush=True)
            obs = json.load(open(os.path.join(vd, 'out', prop, 'obligations.json')))
            for o in obs:
                if o['expect'] != 'unsat' or o['group'] == 'canary':
                    continue
                ok = o['result'] == 'unsat'
                never.setdefault(o['name'], True)
                if ok:
                    never[o['name']] = False
                bad = (not ok) or o.get('tries', 1) > 1 or o.get('total_seconds', o['seconds']) > slow
                if bad:
                    w = worst.setdefault(o['name'], [])
                    w.append((s, o['result'], o.get('tries', 1), o.get('total_seconds', o['seconds'])))
        spec_path = os.path.join(vd, 'props', prop + '.json')
        spec = json.load(open(spec_path))
        units = {}
        for u in spec['units']:
            units.setdefault(u['func'], []).append(u)
        n = 0
        for name, w in sorted(worst.items()):
            tag = 'NEVER ' if never.get(name) else 'SLOW  '
            print(tag, name, w)
            if never.get(name) or not apply:
                continue
            head, _, kind = name.partition('/')
            _, _, key = head.partition('.')
            key = key.split('$lit')[0]
            cands = units.get(key, []) or units.get('*', [])
            if not cands:
                print('   no unit for', name)
                continue
            pkgshort = head.partition('.')[0]
            exact = [c for c in cands if c['pkg'].replace('/', '_') == pkgshort] or [c for c in cands if c['pkg'].split('/')[-1] == pkgshort and '/' not in c['pkg']] or [c for c in cands if c['pkg'].split('/')[-1] == pkgshort]
            u = (exact or cands)[0]
            pat = '=' + kind if '$lit' not in head and u['func'] != '*' else name.split('.', 1)[1]
            if pat not in u.get('slow', []):
                u.setdefault('slow', []).append(pat)
                n += 1
        if apply and n:
            json.dump(spec, open(spec_path, 'w'), indent=1)
            open(spec_path, 'a').write('\n')
        print('%s: %d slow/unstable obligations%s' % (prop, len(worst), (', %d moved to the thorough tier' % n) if apply else ''))

main()
