#!/usr/bin/env python3
"""Print the prompt handed to a fresh sub-agent asked for a property-breaking change.
Only the property record and the path of a scratch worktree are included (nothing from /verif)."""
import json, sys
pid, wt = sys.argv[1], sys.argv[2]
extra = sys.argv[3] if len(sys.argv) > 3 else ""
rec = None
for l in open('/verif/properties.jsonl'):
    p = json.loads(l)
    if p['id'] == pid: rec = p
print(f"""You are helping test a verification effort on the Go repository rpcpool/yellowstone-faithful (Solana historical-archive server and CLI).
You have your own scratch git worktree of the repository at {wt} (a detached checkout of the pinned commit). Work ONLY inside {wt}; never touch /repo or /verif, and do not read anything under /verif.

Here is a semantic property the repository is supposed to satisfy (JSON record):

{json.dumps(rec, indent=1)}

Task: produce ONE realistic change to the repository's non-test Go source (a plausible refactoring slip, optimisation, off-by-one, wrong width, dropped check, reordered statements, or two cooperating edits that each look fine alone) that BREAKS this property, while the repository still compiles and ALL existing tests still pass. The breakage must need something specific to manifest (an unusual input or size, a particular boundary value, a multi-step sequence of operations, a crash/fault at a particular point, a particular interleaving) - not something ordinary use or the existing tests would expose at once. Keep the change small (a few lines, at most ~25). Do not change test files, and do not add new exported API that tests would need. {extra}

Environment (no network): in every shell call first run
  export GOFLAGS=-mod=mod GOPROXY=off GOSUMDB=off GOTOOLCHAIN=local
Build: (cd {wt} && go build ./... ) ; tests of a package: (cd {wt} && go test -vet=off -count=1 ./<pkg>/...) ; all tests: (cd {wt} && go test -vet=off -count=1 ./...) (takes ~1-2 minutes; the root package `main` is slow to compile).

Deliverables, all under {wt}/MUTANT/ :
  1. patch.diff   - `git -C {wt} diff` of your source change ONLY (no test/demo files in it). It must apply with `git apply` on the pinned commit.
  2. a demonstration: a Go test file (name it demo_test.go and say in README which package directory it must be copied into, e.g. compactindexsized/demo_verif_test.go) or a small main program, which FAILS with your change applied and PASSES on the pinned commit. It must run offline in under 2 minutes.
  3. README.md    - what you changed, why it breaks the property, what it needs in order to manifest, and the exact commands you ran showing: (a) existing tests of the affected packages pass with the change, (b) the demonstration fails with the change, (c) the demonstration passes without the change (use `git stash` or `git apply -R`).
Leave the worktree with the change REVERTED at the end (source tree clean apart from MUTANT/). Report back briefly: the files changed, the idea, and what is needed for it to manifest.""")
