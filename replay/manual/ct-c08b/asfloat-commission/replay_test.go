package main

// C08 replay (ct-c08b/asfloat-commission): JSON-RPC getBlock on a block whose archived rewards carry a commission string
// that is not a number.
//
// handleGetBlock decodes the Rewards node (zstd(protobuf Rewards)), converts it to JSON and, for every reward whose
// "commission" is a string, calls asFloat(s), which does fmt.Sscanf(s, "%f", &f) and panic(err) on failure. The commission
// is a free-form protobuf string taken from the archive (C12: archive content is external input); a value such as "abc",
// " ", "-" or "0x" ends the server process.
//
//   cd /repo && go test -vet=off -count=1 -overlay /verif/replay/manual/ct-c08b/asfloat-commission/overlay.json -run 'TestReplayC08bAsFloat' -v .

import (
	"strings"
	"testing"

	"github.com/rpcpool/yellowstone-faithful/third_party/solana_proto/confirmed_block"
)

func TestReplayC08bAsFloatCommission(t *testing.T) {
	tx := func(n int) []c08bTx {
		return []c08bTx{{raw: c08bTxBytes(t, c08bPlainTx(n)), meta: c08bMeta(t, c08bPlainMeta())}}
	}
	rw := func(commission string) []byte {
		return c08bRewards(t, &confirmed_block.Rewards{Rewards: []*confirmed_block.Reward{
			{Pubkey: c08bKey(0xA1).String(), Lamports: 10, PostBalance: 20, RewardType: confirmed_block.RewardType_Voting, Commission: commission},
		}})
	}
	fx := c08bBuild(t, []c08bBlock{
		{slot: 999, parent: 0, txs: tx(0), rewards: rw("7")},
		{slot: 1000, parent: 999, txs: tx(1), rewards: rw("abc")},
	})
	// sanity: a numeric commission is served (as a number)
	if o := fx.jsonrpc("getBlock", `[999]`); o.panicked || o.rpcErr != nil || !strings.Contains(o.body, `"commission":7`) {
		t.Fatalf("fixture: block 999 with commission \"7\" not served as expected: %v", o)
	}
	o := fx.jsonrpc("getBlock", `[1000]`)
	if o.panicked {
		t.Fatalf("REPLAY-CONFIRMED C08/asfloat-commission (JSON-RPC getBlock [1000], archived reward commission \"abc\"): handler panicked: %s\n  at %s", o.panicMsg, o.site())
	}
	if o.rpcErr == nil && !strings.Contains(o.body, `"result"`) {
		t.Fatalf("no response and no error: %v", o)
	}
	t.Logf("getBlock [1000] answered without crashing: %v", o)
}
