#!/usr/bin/env python3
"""Regenerates /verif/MANIFEST.json from props/*.json and tools/manifest_meta.json."""
import json, glob, os
meta = json.load(open('/verif/tools/manifest_meta.json'))
props = {json.loads(l)['id'] for l in open('/verif/properties.jsonl')}
import subprocess
hook_commits = [l.split()[0] for l in subprocess.run(['git', '-C', '/repo', 'log', '--format=%h %s'], capture_output=True, text=True).stdout.splitlines() if len(l.split()) > 1 and l.split()[1] == 'verif:']
checks = []
claimed = set()
for f in sorted(glob.glob('/verif/props/C*.json')):
    p = json.load(open(f))
    pid = p['id']
    m = meta['checks'].get(pid, {})
    if m.get('disabled'):
        continue
    claimed.add(pid)
    checks.append({
        "property_id": pid,
        "quick_cmd": f"bin/vcgo check {pid} --tier quick",
        "thorough_cmd": f"bin/vcgo check {pid} --tier thorough",
        "evidence_file": f"/verif/evidence/{pid}.json",
        "replay_cmd_template": "cat {path}",
        "engine": "vcgo",
        "level_claimed": {"category": p.get('level', 'proof'), "text": m.get('level_text', p.get('explanation', '')), "design_ref": m.get('design_ref', 'DESIGN.md §3 ' + pid)},
        "level_note": m.get('level_note', '; '.join(p.get('trusted_base', []))),
        "technique": m.get('technique', "contract-based deductive verification: //@ contracts on the real Go functions, VCs generated from the typed AST (vcgo), discharged by z3/cvc5"),
    })
na = []
for pid in sorted(props - claimed):
    na.append({"property_id": pid, "reason": meta['not_applicable'].get(pid, "not built yet: no obligation tied to this property is discharged on every run")})
man = {
    "version": 1,
    "setup_cmd": "cd /verif/vcgo && GOFLAGS=-mod=mod GOPROXY=off GOSUMDB=off GOTOOLCHAIN=local go build -o ../bin/vcgo .",
    "hooks": {
        "guard": "verif",
        "enable": "go build tag `verif` (packages are loaded with -tags=verif; the only guarded files are comment-only <pkg>/contracts_verif.go contract files)",
        "baseline_off_cmd": "cd /repo && GOFLAGS=-mod=mod GOPROXY=off GOSUMDB=off go test -json -vet=off -count=1 -timeout 25m ./...",
        "source_commits": hook_commits,
        "add_only": True,
    },
    "engines": [{"name": "vcgo", "path": "/verif/vcgo", "serves_properties": sorted(claimed),
                 "kind_free_text": "verification-condition generator for Go (go/packages + go/types AST, forward symbolic execution with loop invariants and modular call contracts) + SMT portfolio z3-new/z3/cvc5"}],
    "checks": checks,
    "notes": meta.get('notes', ''),
    "not_applicable": na,
}
json.dump(man, open('/verif/MANIFEST.json', 'w'), indent=1)
print("MANIFEST.json:", len(checks), "checks,", len(na), "not_applicable")
