package main

func replayObligation(eng *Engine, res *UnitResult, o *Obligation) (bool, string) {
	return false, "no replay generator for this obligation kind yet"
}
