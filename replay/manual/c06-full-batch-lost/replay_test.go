package gsfa

// Replay for C06: "any per-address count (in particular at and around the 1 000-entry batch size)".
// One address with 1 035 indexed transactions: the first 1 000 are handed to the background flusher as a full batch.
// On the pinned tree the batch is parked in fullBufferWriter's tmpBuf and never written at Close (and the remainder is
// flushed BEFORE it would be): the address reads back 35 entries.

import (
	"context"
	"path/filepath"
	"testing"

	"github.com/gagliardetto/solana-go"
	"github.com/ipfs/go-cid"
	"github.com/rpcpool/yellowstone-faithful/indexes"
	"github.com/rpcpool/yellowstone-faithful/indexmeta"
)

func TestReplayC06FullBatchLost(t *testing.T) {
	for _, n := range []int{999, 1000, 1001, 1035, 2000, 2500} {
		dir := filepath.Join(t.TempDir(), "gsfa")
		rootCid, _ := cid.Parse("bafyreifljyxj55v6jycjf2y7tdibwwwqx75eqf5mn2thip2sswyc536zqq")
		meta := indexmeta.Meta{}
		meta.AddUint64(indexmeta.MetadataKey_Epoch, 7)
		meta.AddCid(indexmeta.MetadataKey_RootCid, rootCid)
		meta.AddString(indexmeta.MetadataKey_Network, string(indexes.NetworkMainnet))
		w, err := NewGsfaWriter(dir, meta, 7, rootCid, indexes.NetworkMainnet, t.TempDir())
		if err != nil {
			t.Fatal(err)
		}
		var pk solana.PublicKey
		pk[0], pk[31] = 9, 0x5a
		for i := 0; i < n; i++ {
			if err := w.Push(uint64(1000+i*1300), uint64(200+i%700), uint64(1001+i/10), solana.PublicKeySlice{pk}, true, true, false); err != nil {
				t.Fatal(err)
			}
		}
		if err := w.Close(); err != nil {
			t.Fatal(err)
		}
		r, err := NewGsfaReader(dir)
		if err != nil {
			t.Fatal(err)
		}
		got, err := r.Get(context.Background(), pk, 1<<30)
		if err != nil {
			t.Fatalf("n=%d: Get: %v", n, err)
		}
		if len(got) != n {
			t.Errorf("REPLAY-CONFIRMED C06/full-batch-lost: pushed %d entries for one address, the closed index returns %d", n, len(got))
			continue
		}
		for k := range got {
			want := uint64(1000 + (n-1-k)*1300)
			if got[k].Offset != want {
				t.Errorf("REPLAY-CONFIRMED C06/order: n=%d entry %d has offset %d, want %d (reverse order of indexing)", n, k, got[k].Offset, want)
				break
			}
		}
	}
}
