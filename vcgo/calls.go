package main

// Calls: conversions, builtins, contracted repo functions, library models, unknown callees.

import (
	"fmt"
	"go/ast"
	"go/token"
	"go/types"
	"math/big"
	"regexp"
	"strings"
)

func (u *Unit) evalCall(st *State, e *ast.CallExpr) Term {
	// conversion?
	if tv, ok := u.info.Types[e.Fun]; ok && tv.IsType() {
		if len(e.Args) != 1 {
			return u.abstractExpr(st, e, "conversion arity")
		}
		return u.evalConversion(st, e, tv.Type)
	}
	// builtin?
	if id, ok := ast.Unparen(e.Fun).(*ast.Ident); ok {
		if b, ok := u.info.Uses[id].(*types.Builtin); ok {
			return u.evalBuiltin(st, e, b.Name())
		}
	}
	// function literal executed inline (immediately invoked, or a local closure that is only ever called)
	if fl := u.inlineTarget(e); fl != nil {
		return u.execLitInline(st, e, fl)
	}
	u.countCall(st, e)
	// resolve static callee
	callee, recvExpr := u.staticCallee(e)
	if callee != nil {
		if impl := u.devirtualize(callee); impl != nil {
			callee = impl
		}
		r := u.callFunc(st, e, callee, recvExpr)
		if u.mayRunClosures(e, callee) {
			u.havocClosureVars(st) // an escaping closure may have run during / before this call
		}
		return r
	}
	// dynamic call through a function value
	r := u.callDynamic(st, e)
	u.havocClosureVars(st)
	return r
}

// mayRunClosures: could an escaping closure of this function run during the call (or have its writes become visible at it)?
// Repository callees: always (they may hold the closure). External callees: only when the call receives a function value, or
// is a synchronisation operation by name (Wait, Lock, ...); a plain library call (Close, Write, Sprintf, ...) cannot reach
// a closure of this function.
func (u *Unit) mayRunClosures(e *ast.CallExpr, callee *types.Func) bool {
	if len(u.closureWritten) == 0 {
		return false
	}
	if callee.Pkg() == nil || u.eng.isRepoPkg(callee.Pkg().Path()) {
		return true
	}
	switch callee.Name() {
	case "Wait", "Lock", "Unlock", "RLock", "RUnlock", "Do", "Go", "Done", "Add", "Broadcast", "Signal", "Stop", "Shutdown", "Serve":
		return true
	}
	for _, a := range e.Args {
		if t := u.typeOf(a); t != nil {
			if _, ok := t.Underlying().(*types.Signature); ok {
				return true
			}
		}
	}
	return false
}

// staticCallee returns the called *types.Func (method or function) if statically known.
func (u *Unit) staticCallee(e *ast.CallExpr) (*types.Func, ast.Expr) {
	fun := ast.Unparen(e.Fun)
	if ix, ok := fun.(*ast.IndexExpr); ok { // explicit instantiation
		fun = ix.X
	}
	if ix, ok := fun.(*ast.IndexListExpr); ok {
		fun = ix.X
	}
	switch f := fun.(type) {
	case *ast.Ident:
		if fn, ok := u.info.Uses[f].(*types.Func); ok {
			return fn, nil
		}
	case *ast.SelectorExpr:
		if sel, ok := u.info.Selections[f]; ok {
			if sel.Kind() == types.MethodVal {
				return sel.Obj().(*types.Func), f.X
			}
			return nil, nil
		}
		if fn, ok := u.info.Uses[f.Sel].(*types.Func); ok {
			return fn, nil
		}
	}
	return nil, nil
}

// devirtualize: a method of an interface type declared in the repository that has exactly one implementing named type in
// its own package is resolved to that implementation (closed-world assumption, noted).
func (u *Unit) devirtualize(callee *types.Func) *types.Func {
	sig := callee.Type().(*types.Signature)
	if sig.Recv() == nil || callee.Pkg() == nil || !u.eng.isRepoPkg(callee.Pkg().Path()) {
		return nil
	}
	it, ok := sig.Recv().Type().Underlying().(*types.Interface)
	if !ok {
		return nil
	}
	named, ok := sig.Recv().Type().(*types.Named)
	if !ok {
		return nil
	}
	var found *types.Func
	n := 0
	scope := callee.Pkg().Scope()
	for _, name := range scope.Names() {
		tn, ok := scope.Lookup(name).(*types.TypeName)
		if !ok || tn.IsAlias() {
			continue
		}
		T := tn.Type()
		if types.IsInterface(T) {
			continue
		}
		for _, cand := range []types.Type{T, types.NewPointer(T)} {
			if types.Implements(cand, it) {
				obj, _, _ := types.LookupFieldOrMethod(cand, true, callee.Pkg(), callee.Name())
				if f, ok := obj.(*types.Func); ok {
					found = f
					n++
				}
				break
			}
		}
	}
	if n == 1 {
		u.c.note("interface method %s.%s resolved to its only implementation %s (closed-world assumption)", named.Obj().Name(), callee.Name(), found.FullName())
		return found
	}
	return nil
}

func (u *Unit) evalConversion(st *State, e *ast.CallExpr, to types.Type) Term {
	arg := e.Args[0]
	a := u.eval(st, arg)
	from := a.T
	if a.T == nil && a.K != nil {
		return u.materialize(a, to)
	}
	if isNilTerm(a) {
		return u.zeroOf(to)
	}
	if from == nil {
		return u.abstractExpr(st, e, "conversion")
	}
	_, _, toInt := intInfo(to)
	_, _, fromInt := intInfo(from)
	switch {
	case toInt && fromInt:
		return u.convertInt(a, to)
	case types.IsInterface(to):
		return u.coerce(st, a, to)
	case u.c.sortOf(from) == u.c.sortOf(to) && !isStringType(to):
		a.T = to
		return a
	}
	// []byte(string), string([]byte)
	if isStringType(from) {
		if sl, ok := to.Underlying().(*types.Slice); ok {
			if b, ok := sl.Elem().Underlying().(*types.Basic); ok && b.Kind() == types.Uint8 {
				c := u.c
				c.declareFun("gstr.bytes", fmt.Sprintf("(Str) (Array %s %s)", c.idxSort(), c.sortOf(sl.Elem())))
				r := u.allocBlock(st, sl.Elem(), "(gstr.bytes "+a.S+")")
				ln := "(gstr.len " + a.S + ")"
				return Term{S: fmt.Sprintf("(mk_slice %s %s %s %s)", r, c.idxConst(0), ln, ln), T: to}
			}
		}
	}
	if isStringType(to) {
		if _, ok := from.Underlying().(*types.Slice); ok {
			r := u.freshOf(st, to, "str")
			st.assume(eq("(gstr.len "+r.S+")", sLen(a.S)))
			return r
		}
	}
	// slice -> array pointer / array
	if pt, ok := to.Underlying().(*types.Pointer); ok {
		if at, ok := pt.Elem().Underlying().(*types.Array); ok {
			if _, ok := from.Underlying().(*types.Slice); ok {
				c := u.c
				goal := c.idxLe(c.idxConst(at.Len()), sLen(a.S))
				u.emit(st, "safety", u.safetyName("bounds", u.exprText(e)), "slice to array pointer length: "+u.exprText(e), e.Pos(), goal)
				st.assume(goal)
				// the array pointer aliases the slice only when off == 0; otherwise copy (noted)
				blk := u.sliceBlock(st, a)
				shifted := u.c.fresh("arrview", c.sortOf(pt.Elem()))
				for i := int64(0); i < at.Len() && at.Len() <= 64; i++ {
					st.assume(eq(fmt.Sprintf("(select %s %s)", shifted, c.idxConst(i)), fmt.Sprintf("(select %s %s)", blk, c.idxAdd(sOff(a.S), c.idxConst(i)))))
				}
				r := u.allocBlock(st, at.Elem(), shifted)
				u.c.note("slice-to-array-pointer conversion %s modelled as a read-only copy", u.exprText(e))
				return Term{S: r, T: to}
			}
		}
	}
	// slice -> array (Go 1.20): panics when the slice is shorter than the array
	if at, ok := to.Underlying().(*types.Array); ok {
		if _, ok := from.Underlying().(*types.Slice); ok {
			c := u.c
			goal := c.idxLe(c.idxConst(at.Len()), sLen(a.S))
			u.emit(st, "safety", u.safetyName("bounds", u.exprText(e)), "slice to array conversion: the slice is at least as long as the array: "+u.exprText(e), e.Pos(), goal)
			st.assume(goal)
			blk := u.sliceBlock(st, a)
			arr := u.c.fresh("arrval", c.sortOf(to))
			for i := int64(0); i < at.Len() && at.Len() <= 64; i++ {
				st.assume(eq(fmt.Sprintf("(select %s %s)", arr, c.idxConst(i)), fmt.Sprintf("(select %s %s)", blk, c.idxAdd(sOff(a.S), c.idxConst(i)))))
			}
			return Term{S: arr, T: to}
		}
	}
	return u.abstractExpr(st, e, "conversion "+from.String()+" -> "+to.String())
}

func (u *Unit) evalBuiltin(st *State, e *ast.CallExpr, name string) Term {
	c := u.c
	switch name {
	case "len", "cap":
		a := u.eval(st, e.Args[0])
		t := a.T
		if pt, ok := t.Underlying().(*types.Pointer); ok {
			t = pt.Elem()
		}
		switch ut := t.Underlying().(type) {
		case *types.Slice:
			if name == "len" {
				return Term{S: sLen(a.S), T: types.Typ[types.Int]}
			}
			return Term{S: sCap(a.S), T: types.Typ[types.Int]}
		case *types.Array:
			return Term{S: c.idxConst(ut.Len()), T: types.Typ[types.Int], K: big.NewInt(ut.Len())}
		case *types.Basic:
			if isStringType(t) {
				return Term{S: "(gstr.len " + a.S + ")", T: types.Typ[types.Int]}
			}
		case *types.Map:
			return u.mapLen(st, a)
		}
		r := u.freshOf(st, types.Typ[types.Int], name)
		st.assume(c.idxLe(c.idxConst(0), r.S))
		return r
	case "make":
		t := u.typeOf(e)
		switch ut := t.Underlying().(type) {
		case *types.Slice:
			ln := u.eval(st, e.Args[1])
			lnI := u.toIdx(ln)
			cpI := lnI
			goal := c.idxLe(c.idxConst(0), lnI)
			if len(e.Args) > 2 {
				cp := u.eval(st, e.Args[2])
				cpI = u.toIdx(cp)
				goal = and(goal, c.idxLe(lnI, cpI))
			}
			// make panics when the length (as int) is negative or absurdly large
			if ln.T != nil {
				if _, signed, ok := intInfo(ln.T); ok && !signed {
					// unsigned argument: conversion to int must not overflow
					if !c.bv {
						goal = and(goal, "(<= "+ln.S+" 9223372036854775807)")
					} else if b, _, _ := intInfo(ln.T); b == 64 {
						goal = and(goal, "(bvsge "+ln.S+" (_ bv0 64))")
					}
				}
			}
			u.emit(st, "safety", u.safetyName("make", u.exprText(e)), "make length non-negative: "+u.exprText(e), e.Pos(), goal)
			st.assume(goal)
			u.allocSites = append(u.allocSites, allocSite{pos: e.Pos(), text: u.exprText(e), size: lnI})
			r := u.allocBlock(st, ut.Elem(), u.zeroOf(types.NewArray(ut.Elem(), 0)).S)
			return Term{S: fmt.Sprintf("(mk_slice %s %s %s %s)", r, c.idxConst(0), lnI, cpI), T: t}
		case *types.Map:
			for _, a := range e.Args[1:] {
				u.eval(st, a)
			}
			return Term{S: u.newMap(st, ut), T: t}
		case *types.Chan:
			capT := c.idxConst(0)
			for i, a := range e.Args[1:] {
				v := u.eval(st, a)
				if i == 0 {
					capT = u.toIdx(v)
				}
			}
			r := u.newRef(st)
			// ghost: the buffer capacity the channel was made with (spec builtin chancap)
			c.declareFun("chan.cap", "(Int) "+c.idxSort())
			st.assume(eq("(chan.cap "+r+")", capT))
			return Term{S: r, T: t}
		}
	case "new":
		t := u.typeOf(e)
		pt := t.Underlying().(*types.Pointer)
		r := u.allocCell(st, pt.Elem(), u.zeroOf(pt.Elem()).S)
		return Term{S: r, T: t}
	case "panic":
		for _, a := range e.Args {
			u.eval(st, a)
		}
		goal := "false"
		what := "explicit panic unreachable: "
		if u.ct != nil && len(u.ct.Panics) > 0 {
			env := &SpecEnv{u: u, st: st, old: u.entry, names: map[string]Term{}, cs: u.cs, pkg: u.pkg.Types, own: true, scopePos: u.bodyPos}
			var alts []string
			for _, p := range u.ct.Panics {
				alts = append(alts, env.evalBool(p.Expr))
			}
			goal = or(alts...)
			what = "explicit panic only under the declared panics-condition: "
		}
		u.emit(st, "safety", u.safetyName("panic", u.exprText(e)), what+u.exprText(e), e.Pos(), goal)
		st.assume("false")
		return Term{Tuple: []Term{}}
	case "append":
		return u.evalAppend(st, e)
	case "copy":
		return u.evalCopy(st, e)
	case "min", "max":
		cur := u.eval(st, e.Args[0])
		rt := u.typeOf(e)
		for _, a := range e.Args[1:] {
			b := u.eval(st, a)
			op := token.LSS
			if name == "max" {
				op = token.GTR
			}
			cmp := u.binop(st, op, cur, b, types.Typ[types.Bool], e, false)
			x, y := u.unify(cur, b)
			cur = Term{S: ite(cmp.S, x.S, y.S), T: x.T}
		}
		cur.T = rt
		return cur
	case "delete":
		m := u.eval(st, e.Args[0])
		k := u.eval(st, e.Args[1])
		if mt, ok := m.T.Underlying().(*types.Map); ok {
			u.mapDelete(st, m, u.coerce(st, k, mt.Key()), mt)
		}
		return Term{Tuple: []Term{}}
	case "clear":
		a := u.eval(st, e.Args[0])
		if a.T != nil {
			if sl, ok := a.T.Underlying().(*types.Slice); ok {
				// clear(s): every element of s becomes the zero value, nothing else changes
				u.havocSliceElems(st, a)
				k := u.c.fresh("k", u.c.idxSort())
				in := and(u.c.idxLe(u.c.idxConst(0), k), u.c.idxLt(k, sLen(a.S)))
				el := u.sliceElem(st, a, k)
				u.assumeForall(st, k, u.c.idxSort(), implies(in, eq(el.S, u.zeroOf(sl.Elem()).S)), el.S)
				return Term{Tuple: []Term{}}
			}
		}
		u.unsupportedf(e.Pos(), "clear() of a map abstracted")
		u.havocAllHeaps(st)
		return Term{Tuple: []Term{}}
	case "close", "print", "println":
		for _, a := range e.Args {
			u.eval(st, a)
		}
		return Term{Tuple: []Term{}}
	case "recover":
		return u.freshOf(st, u.typeOf(e), "recover")
	}
	return u.abstractExpr(st, e, "builtin "+name)
}

type allocSite struct {
	pos  token.Pos
	text string
	size string
}

func (u *Unit) evalAppend(st *State, e *ast.CallExpr) Term {
	c := u.c
	s := u.eval(st, e.Args[0])
	t := u.typeOf(e)
	slt, ok := t.Underlying().(*types.Slice)
	if !ok {
		return u.abstractExpr(st, e, "append")
	}
	if isNilTerm(s) {
		s = u.zeroOf(t)
	}
	s.T = t
	elem := slt.Elem()
	h := u.elemHeap(elem)
	// number of appended elements and their values
	var addN string
	var vals []string
	var src *Term
	if e.Ellipsis.IsValid() {
		a := u.eval(st, e.Args[1])
		if isStringType(a.T) {
			return u.abstractExpr(st, e, "append string...")
		}
		if isNilTerm(a) {
			a = u.zeroOf(t)
		}
		src = &a
		addN = sLen(a.S)
	} else {
		for _, x := range e.Args[1:] {
			vals = append(vals, u.evalAs(st, x, elem).S)
		}
		addN = c.idxConst(int64(len(vals)))
	}
	if r, ok := u.appendConst(st, s, src, vals, elem, t); ok {
		return r
	}
	newLen := c.idxAdd(sLen(s.S), addN)
	fits := c.idxLe(newLen, sCap(s.S))
	// result slice: in place if it fits, otherwise a fresh block with a copy of the old elements
	freshRef := u.newRef(st)
	res := u.c.fresh("app", "Slice")
	newCap := u.c.fresh("cap", c.idxSort())
	st.assume(c.idxLe(newLen, newCap))
	st.assume(c.idxLe(newCap, c.constInt(pow2(56), 64, true)))
	st.assume(eq(res, ite(fits,
		fmt.Sprintf("(mk_slice %s %s %s %s)", sRef(s.S), sOff(s.S), newLen, sCap(s.S)),
		fmt.Sprintf("(mk_slice %s %s %s %s)", freshRef, c.idxConst(0), newLen, newCap))))
	cur := u.heapRead(st, h)
	oldBlk := fmt.Sprintf("(select %s %s)", cur, sRef(s.S))
	// destination block before writing the new elements
	dst := u.c.fresh("blk", fmt.Sprintf("(Array %s %s)", c.idxSort(), c.sortOf(elem)))
	j := u.c.fresh("j", c.idxSort())
	// fits: dst == oldBlk ; else: dst[j] == oldBlk[off+j] for j < len
	u.assumeForall(st, j, c.idxSort(), implies(and(not(fits), c.idxLe(c.idxConst(0), j), c.idxLt(j, sLen(s.S))),
		eq(fmt.Sprintf("(select %s %s)", dst, j), fmt.Sprintf("(select %s %s)", oldBlk, c.idxAdd(sOff(s.S), j)))),
		fmt.Sprintf("(select %s %s)", dst, j))
	st.assume(implies(fits, eq(dst, oldBlk)))
	base := c.idxAdd(sOff(res), sLen(s.S))
	nb := dst
	if src == nil {
		for i, v := range vals {
			nb = fmt.Sprintf("(store %s %s %s)", nb, c.idxAdd(base, c.idxConst(int64(i))), v)
		}
	} else {
		srcBlk := u.sliceBlock(st, *src)
		nb2 := u.c.fresh("blk", fmt.Sprintf("(Array %s %s)", c.idxSort(), c.sortOf(elem)))
		k := u.c.fresh("k", c.idxSort())
		inNew := and(c.idxLe(base, k), c.idxLt(k, c.idxAdd(base, addN)))
		u.assumeForall(st, k, c.idxSort(), eq(fmt.Sprintf("(select %s %s)", nb2, k),
			ite(inNew, fmt.Sprintf("(select %s %s)", srcBlk, c.idxAdd(sOff(src.S), c.idxSub(k, base))), fmt.Sprintf("(select %s %s)", dst, k))),
			fmt.Sprintf("(select %s %s)", nb2, k))
		nb = nb2
	}
	u.heapWrite(st, h, fmt.Sprintf("(store %s %s %s)", cur, sRef(res), nb))
	st.spare = append(st.spare, spareRegion{h, sRef(s.S), c.idxAdd(sOff(s.S), sLen(s.S))})
	return Term{S: res, T: t}
}

// appendConst: quantifier-free append when the lengths involved are known small constants.
func (u *Unit) appendConst(st *State, s Term, src *Term, vals []string, elem types.Type, t types.Type) (Term, bool) {
	c := u.c
	n0, ok := u.constLen(s)
	if !ok || n0 > 64 {
		return Term{}, false
	}
	h := u.elemHeap(elem)
	var newVals []string
	if src != nil {
		n1, ok := u.constLen(*src)
		if !ok || n1 > 64 {
			return Term{}, false
		}
		for i := int64(0); i < n1; i++ {
			newVals = append(newVals, u.sliceElem(st, *src, c.idxConst(i)).S)
		}
	} else {
		newVals = vals
	}
	total := n0 + int64(len(newVals))
	newLen := c.idxConst(total)
	fits := c.idxLe(newLen, sCap(s.S))
	freshRef := u.newRef(st)
	res := c.fresh("app", "Slice")
	newCap := c.fresh("cap", c.idxSort())
	st.assume(c.idxLe(newLen, newCap))
	st.assume(c.idxLe(newCap, c.constInt(pow2(56), 64, true)))
	st.assume(eq(res, ite(fits,
		fmt.Sprintf("(mk_slice %s %s %s %s)", sRef(s.S), sOff(s.S), newLen, sCap(s.S)),
		fmt.Sprintf("(mk_slice %s %s %s %s)", freshRef, c.idxConst(0), newLen, newCap))))
	u.lenHints[res] = total
	cur := u.heapRead(st, h)
	oldBlk := fmt.Sprintf("(select %s %s)", cur, sRef(s.S))
	// in place: old block plus new elements; fresh: zero block with copied prefix plus new elements
	inPlace := oldBlk
	moved := u.zeroOf(types.NewArray(elem, 0)).S
	for i := int64(0); i < n0; i++ {
		moved = fmt.Sprintf("(store %s %s (select %s %s))", moved, c.idxConst(i), oldBlk, c.idxAdd(sOff(s.S), c.idxConst(i)))
	}
	for i, v := range newVals {
		inPlace = fmt.Sprintf("(store %s %s %s)", inPlace, c.idxAdd(sOff(s.S), c.idxConst(n0+int64(i))), v)
		moved = fmt.Sprintf("(store %s %s %s)", moved, c.idxConst(n0+int64(i)), v)
	}
	u.heapWrite(st, h, fmt.Sprintf("(store %s %s %s)", cur, sRef(res), ite(fits, inPlace, moved)))
	st.spare = append(st.spare, spareRegion{h, sRef(s.S), c.idxAdd(sOff(s.S), sLen(s.S))})
	return Term{S: res, T: t}, true
}

// assumeForall adds (forall ((v sort)) body) with a trigger.
func (u *Unit) assumeForall(st *State, v, sortS, body, pattern string) {
	// the bound variable was created as a fresh constant; rebind it
	st.assume(fmt.Sprintf("(forall ((%s_b %s)) (! %s :pattern (%s)))", v, sortS, strings.ReplaceAll(body, v, v+"_b"), strings.ReplaceAll(pattern, v, v+"_b")))
}

func (u *Unit) evalCopy(st *State, e *ast.CallExpr) Term {
	c := u.c
	d := u.eval(st, e.Args[0])
	s := u.eval(st, e.Args[1])
	dst, ok := d.T.Underlying().(*types.Slice)
	if !ok {
		return u.abstractExpr(st, e, "copy")
	}
	if isStringType(s.T) {
		u.unsupportedf(e.Pos(), "copy from string abstracted")
		u.havocHeap(st, u.elemHeap(dst.Elem()))
		r := u.freshOf(st, types.Typ[types.Int], "ncopy")
		return r
	}
	elem := dst.Elem()
	h := u.elemHeap(elem)
	n := ite(c.idxLt(sLen(d.S), sLen(s.S)), sLen(d.S), sLen(s.S))
	nn := u.c.fresh("ncopy", c.idxSort())
	st.assume(eq(nn, n))
	cur := u.heapRead(st, h)
	srcBlk := fmt.Sprintf("(select %s %s)", cur, sRef(s.S))
	dstBlk := fmt.Sprintf("(select %s %s)", cur, sRef(d.S))
	// one side has a small constant length: explicit guarded stores (quantifier-free)
	dl, okd := u.constLen(d)
	sl, oks := u.constLen(s)
	if (okd && dl <= 64) || (oks && sl <= 64) {
		k := dl
		if !okd || (oks && sl < dl) {
			k = sl
		}
		nb := dstBlk
		for i := int64(0); i < k; i++ {
			ii := c.idxConst(i)
			at := c.idxAdd(sOff(d.S), ii)
			srcV := fmt.Sprintf("(select %s %s)", srcBlk, c.idxAdd(sOff(s.S), ii))
			cond := "true"
			if !okd || dl <= i {
				cond = and(cond, c.idxLt(ii, sLen(d.S)))
			}
			if !oks || sl <= i {
				cond = and(cond, c.idxLt(ii, sLen(s.S)))
			}
			nb = fmt.Sprintf("(store %s %s %s)", nb, at, ite(cond, srcV, fmt.Sprintf("(select %s %s)", dstBlk, at)))
		}
		u.heapWrite(st, h, fmt.Sprintf("(store %s %s %s)", cur, sRef(d.S), nb))
		return Term{S: nn, T: types.Typ[types.Int]}
	}
	nb := u.c.fresh("blk", fmt.Sprintf("(Array %s %s)", c.idxSort(), c.sortOf(elem)))
	k := u.c.fresh("k", c.idxSort())
	in := and(c.idxLe(sOff(d.S), k), c.idxLt(k, c.idxAdd(sOff(d.S), nn)))
	u.assumeForall(st, k, c.idxSort(), eq(fmt.Sprintf("(select %s %s)", nb, k),
		ite(in, fmt.Sprintf("(select %s %s)", srcBlk, c.idxAdd(sOff(s.S), c.idxSub(k, sOff(d.S)))), fmt.Sprintf("(select %s %s)", dstBlk, k))),
		fmt.Sprintf("(select %s %s)", nb, k))
	u.heapWrite(st, h, fmt.Sprintf("(store %s %s %s)", cur, sRef(d.S), nb))
	return Term{S: nn, T: types.Typ[types.Int]}
}

// smallConstLen: both lengths syntactically constant (via mk_slice terms) is hard to see; use K-hints.
func (u *Unit) smallConstLen(st *State, d, s Term) (int64, bool) {
	dl, ok1 := u.constLen(d)
	sl, ok2 := u.constLen(s)
	if ok1 && ok2 {
		if sl < dl {
			dl = sl
		}
		if dl <= 64 {
			return dl, true
		}
	}
	return 0, false
}

// constLen recognises (mk_slice r off LEN cap) with literal LEN.
func (u *Unit) constLen(s Term) (int64, bool) {
	str := s.S
	if !strings.HasPrefix(str, "(mk_slice ") {
		if k, ok := u.lenHints[str]; ok {
			return k, true
		}
		return 0, false
	}
	parts := splitSexp(str[1 : len(str)-1])
	if len(parts) != 5 {
		return 0, false
	}
	return parseConstIdx(parts[3])
}

func parseConstIdx(s string) (int64, bool) {
	var v int64
	if strings.HasPrefix(s, "(_ bv") {
		var w int
		if _, err := fmt.Sscanf(s, "(_ bv%d %d)", &v, &w); err == nil {
			return v, true
		}
		return 0, false
	}
	if _, err := fmt.Sscanf(s, "%d", &v); err == nil && fmt.Sprint(v) == s {
		return v, true
	}
	return 0, false
}

func splitSexp(s string) []string {
	var parts []string
	d := 0
	start := -1
	for i := 0; i < len(s); i++ {
		ch := s[i]
		switch {
		case ch == '(':
			if d == 0 && start < 0 {
				start = i
			}
			d++
		case ch == ')':
			d--
			if d == 0 {
				parts = append(parts, s[start:i+1])
				start = -1
			}
		case ch == ' ' || ch == '\n' || ch == '\t':
			if d == 0 && start >= 0 {
				parts = append(parts, s[start:i])
				start = -1
			}
		default:
			if d == 0 && start < 0 {
				start = i
			}
		}
	}
	if start >= 0 {
		parts = append(parts, s[start:])
	}
	return parts
}

// ---------- maps (finite map model: presence + value arrays in a heap cell) ----------

func (u *Unit) mapHeaps(mt *types.Map) (string, string) {
	key := sanitize(heapTypeKey(mt))
	hp := "HMp_" + key
	hv := "HMv_" + key
	if _, ok := u.c.heapNames[hp]; !ok {
		u.c.heapNames[hp] = fmt.Sprintf("(Array Int (Array %s Bool))", u.c.sortOf(mt.Key()))
		u.c.heapNames[hv] = fmt.Sprintf("(Array Int (Array %s %s))", u.c.sortOf(mt.Key()), u.c.sortOf(mt.Elem()))
		if _, isSlice := mt.Elem().Underlying().(*types.Slice); isSlice && !u.c.bv {
			// ghost: lensum(m) = sum of len(m[k]) over the present keys k (kept by mapStore / mapDelete, 0 for a new map)
			u.c.heapNames["HL_"+key] = "(Array Int Int)"
		}
	}
	return hp, hv
}

// lensumHeap: the ghost heap holding lensum(m) for maps of type mt ("" when not tracked).
func (u *Unit) lensumHeap(mt *types.Map) string {
	u.mapHeaps(mt)
	h := "HL_" + sanitize(heapTypeKey(mt))
	if _, ok := u.c.heapNames[h]; ok {
		return h
	}
	return ""
}

func (u *Unit) newMap(st *State, mt *types.Map) string {
	hp, hv := u.mapHeaps(mt)
	r := u.newRef(st)
	cur := u.heapRead(st, hp)
	u.heapWrite(st, hp, fmt.Sprintf("(store %s %s ((as const (Array %s Bool)) false))", cur, r, u.c.sortOf(mt.Key())))
	_ = hv
	if hl := u.lensumHeap(mt); hl != "" {
		u.heapWrite(st, hl, fmt.Sprintf("(store %s %s 0)", u.heapRead(st, hl), r))
	}
	return r
}

func (u *Unit) mapLookup(st *State, m, k Term, mt *types.Map) (Term, string) {
	v, present := u.mapLookupSpec(st, m, u.coerce(st, k, mt.Key()), mt)
	u.assumeRange(st, v)
	return v, present
}

// mapLookupSpec: lookup without side assumptions (usable under quantifiers in contracts).
func (u *Unit) mapLookupSpec(st *State, m, k Term, mt *types.Map) (Term, string) {
	hp, hv := u.mapHeaps(mt)
	present := fmt.Sprintf("(select (select %s %s) %s)", u.heapRead(st, hp), m.S, k.S)
	present = and(not(eq(m.S, "0")), present)
	val := fmt.Sprintf("(select (select %s %s) %s)", u.heapRead(st, hv), m.S, k.S)
	v := Term{S: ite(present, val, u.zeroOf(mt.Elem()).S), T: mt.Elem()}
	return v, present
}

func (u *Unit) mapStore(st *State, m, k, v Term, mt *types.Map) {
	hp, hv := u.mapHeaps(mt)
	if hl := u.lensumHeap(mt); hl != "" {
		old, present := u.mapLookupSpec(st, m, k, mt)
		cl := u.heapRead(st, hl)
		oldLen := ite(present, sLen(old.S), "0")
		st.assume(fmt.Sprintf("(>= (select %s %s) %s)", cl, m.S, oldLen)) // the sum includes the list being replaced
		u.heapWrite(st, hl, fmt.Sprintf("(store %s %s (- (+ (select %s %s) %s) %s))", cl, m.S, cl, m.S, sLen(v.S), oldLen))
	}
	cp := u.heapRead(st, hp)
	cv := u.heapRead(st, hv)
	u.heapWrite(st, hp, fmt.Sprintf("(store %s %s (store (select %s %s) %s true))", cp, m.S, cp, m.S, k.S))
	u.heapWrite(st, hv, fmt.Sprintf("(store %s %s (store (select %s %s) %s %s))", cv, m.S, cv, m.S, k.S, v.S))
}

func (u *Unit) mapDelete(st *State, m, k Term, mt *types.Map) {
	hp, _ := u.mapHeaps(mt)
	if hl := u.lensumHeap(mt); hl != "" {
		old, present := u.mapLookupSpec(st, m, k, mt)
		cl := u.heapRead(st, hl)
		u.heapWrite(st, hl, fmt.Sprintf("(store %s %s (- (select %s %s) %s))", cl, m.S, cl, m.S, ite(present, sLen(old.S), "0")))
	}
	cp := u.heapRead(st, hp)
	u.heapWrite(st, hp, fmt.Sprintf("(store %s %s (store (select %s %s) %s false))", cp, m.S, cp, m.S, k.S))
}

func (u *Unit) mapLen(st *State, m Term) Term {
	u.c.declareFun("map.len", "(Int) "+u.c.idxSort())
	r := u.freshOf(st, types.Typ[types.Int], "maplen")
	st.assume(u.c.idxLe(u.c.idxConst(0), r.S))
	return r
}

// ---------- interfaces ----------

func (u *Unit) typeTag(t types.Type) int {
	k := typeKey(t)
	id, ok := u.c.typeTags[k]
	if !ok {
		id = len(u.c.typeTags) + 1
		u.c.typeTags[k] = id
	}
	return id
}

func (u *Unit) anyPayloadFn(t types.Type) string {
	srt := u.c.sortOf(t)
	name := "any.val_" + sanitize(heapTypeKey(t))
	u.c.declareFun(name, "(Any) "+srt)
	return name
}

func (u *Unit) toInterface(st *State, v Term, iface types.Type) Term {
	if isErrorType(iface) {
		if types.IsInterface(v.T) {
			return Term{S: u.c.fresh("err", "Int"), T: iface}
		}
		// concrete error value: non-nil
		r := u.c.fresh("errval", "Int")
		st.assume(not(eq(r, "0")))
		st.assume("(> " + r + " 1000)")
		return Term{S: r, T: iface}
	}
	if isEmptyInterface(iface) {
		if types.IsInterface(v.T) {
			r := u.freshOf(st, iface, "any")
			return r
		}
		r := u.c.fresh("boxed", "Any")
		st.assume(eq("(any.tag "+r+")", fmt.Sprint(u.typeTag(v.T))))
		st.assume(eq(fmt.Sprintf("(%s %s)", u.anyPayloadFn(v.T), r), v.S))
		return Term{S: r, T: iface}
	}
	// non-empty interface: object reference; pointers keep their identity
	if _, ok := v.T.Underlying().(*types.Pointer); ok {
		return Term{S: v.S, T: iface}
	}
	if types.IsInterface(v.T) && u.c.sortOf(v.T) == "Int" {
		return Term{S: v.S, T: iface}
	}
	r := u.c.fresh("iface", "Int")
	st.assume("(> " + r + " 0)")
	return Term{S: r, T: iface}
}

func (u *Unit) evalTypeAssert(st *State, e *ast.TypeAssertExpr, commaOk bool) Term {
	x := u.eval(st, e.X)
	if e.Type == nil {
		return u.abstractExpr(st, e, "type switch guard")
	}
	to := u.typeOf(e.Type)
	if to == nil {
		return u.abstractExpr(st, e, "type assertion")
	}
	var okS string
	var val Term
	if isEmptyInterface(x.T) && !types.IsInterface(to) {
		okS = eq("(any.tag "+x.S+")", fmt.Sprint(u.typeTag(to)))
		val = Term{S: fmt.Sprintf("(%s %s)", u.anyPayloadFn(to), x.S), T: to}
		u.c.declareFun("any.nil", "() Any")
		st.assume(eq("(any.tag any.nil)", "0"))
	} else {
		okS = u.c.fresh("assertok", "Bool")
		val = u.freshOf(st, to, "asserted")
	}
	if commaOk {
		v := Term{S: ite(okS, val.S, u.zeroOf(to).S), T: to}
		u.assumeRangeIf(st, okS, val)
		return Term{Tuple: []Term{v, {S: okS, T: types.Typ[types.Bool]}}}
	}
	u.emit(st, "safety", u.safetyName("typeassert", u.exprText(e)), "type assertion holds: "+u.exprText(e), e.Pos(), okS)
	st.assume(okS)
	u.assumeRange(st, val)
	return val
}

func (u *Unit) assumeRangeIf(st *State, cond string, t Term) {
	st.assume(implies(cond, u.rangeFacts(st, t.S, t.T, 0)))
}

// ---------- function calls ----------

type callArgs struct {
	raw     []Term           // arguments before conversion to the parameter types (an &x passed as `any` stays a pointer)
	isig    *types.Signature // instantiated signature (generic callees)
	recv    *Term
	recvExp ast.Expr
	args    []Term
	argExps []ast.Expr
}

// evalArgs evaluates receiver and arguments (handling f(g()) multi-value and variadic packing).
func (u *Unit) evalArgs(st *State, e *ast.CallExpr, sig *types.Signature, recvExpr ast.Expr, callee *types.Func) (callArgs, []func()) {
	var ca callArgs
	var after []func()
	if recvExpr != nil {
		r, wb := u.evalReceiver(st, recvExpr, callee)
		ca.recv = &r
		ca.recvExp = recvExpr
		if wb != nil {
			after = append(after, wb)
		}
	}
	params := sig.Params()
	if len(e.Args) == 1 && params.Len() > 1 {
		t := u.eval(st, e.Args[0])
		if t.IsTuple() {
			ca.args = t.Tuple
			return ca, after
		}
	}
	for i, a := range e.Args {
		var pt types.Type
		if sig.Variadic() && i >= params.Len()-1 {
			if e.Ellipsis.IsValid() {
				pt = params.At(params.Len() - 1).Type()
			} else {
				pt = params.At(params.Len() - 1).Type().(*types.Slice).Elem()
			}
		} else if i < params.Len() {
			pt = params.At(i).Type()
		}
		// &x.f / &s[i] passed directly: copy-in / copy-out
		if ue, ok := ast.Unparen(a).(*ast.UnaryExpr); ok && ue.Op == token.AND {
			if v, wb, ok := u.addrCopyInOut(st, ue); ok {
				ca.args = append(ca.args, v)
				ca.argExps = append(ca.argExps, a)
				after = append(after, wb)
				continue
			}
		}
		rawV := u.eval(st, a)
		v := u.coerce(st, rawV, pt)
		ca.args = append(ca.args, v)
		ca.raw = append(ca.raw, rawV)
		ca.argExps = append(ca.argExps, a)
	}
	if sig.Variadic() && !e.Ellipsis.IsValid() {
		// pack variadic arguments into a fresh slice
		n := params.Len() - 1
		vt := params.At(n).Type().(*types.Slice)
		rest := ca.args[min(n, len(ca.args)):]
		content := u.zeroOf(types.NewArray(vt.Elem(), 0)).S
		for i, v := range rest {
			content = fmt.Sprintf("(store %s %s %s)", content, u.c.idxConst(int64(i)), v.S)
		}
		ln := u.c.idxConst(int64(len(rest)))
		var packed Term
		if len(rest) == 0 {
			packed = u.zeroOf(vt)
		} else {
			r := u.allocBlock(st, vt.Elem(), content)
			packed = Term{S: fmt.Sprintf("(mk_slice %s %s %s %s)", r, u.c.idxConst(0), ln, ln), T: vt}
		}
		ca.args = append(ca.args[:min(n, len(ca.args)):min(n, len(ca.args))], packed)
	}
	return ca, after
}

// addrCopyInOut handles &x.f / &s[i] as call arguments: temp cell + write-back after the call.
func (u *Unit) addrCopyInOut(st *State, ue *ast.UnaryExpr) (Term, func(), bool) {
	x := ast.Unparen(ue.X)
	switch x.(type) {
	case *ast.SelectorExpr, *ast.IndexExpr:
	default:
		return Term{}, nil, false
	}
	if sel, ok := x.(*ast.SelectorExpr); ok {
		if _, isSel := u.info.Selections[sel]; !isSel {
			return Term{}, nil, false // qualified identifier (&pkg.Var)
		}
	}
	t := u.typeOf(ue)
	pt, ok := t.Underlying().(*types.Pointer)
	if !ok {
		return Term{}, nil, false
	}
	val := u.eval(st, x)
	r := u.allocCell(st, pt.Elem(), val.S)
	u.c.note("address of %s passed to a call: copy-in/copy-out (callee assumed not to retain the pointer)", u.exprText(x))
	wb := func() {
		nv := u.loadCell(st, pt.Elem(), r)
		u.assign(st, x, nv)
	}
	return Term{S: r, T: t}, wb, true
}

// evalReceiver evaluates the receiver, taking addresses implicitly for pointer-receiver methods.
func (u *Unit) evalReceiver(st *State, recvExpr ast.Expr, callee *types.Func) (Term, func()) {
	sig := callee.Type().(*types.Signature)
	rt := u.typeOf(recvExpr)
	if sig.Recv() == nil || rt == nil {
		return u.eval(st, recvExpr), nil
	}
	want := sig.Recv().Type()
	_, wantPtr := want.Underlying().(*types.Pointer)
	_, havePtr := rt.Underlying().(*types.Pointer)
	if types.IsInterface(rt) {
		return u.eval(st, recvExpr), nil
	}
	// promoted methods through embedded fields: walk the implicit path
	base, baseIsAddr, wb := u.receiverBase(st, recvExpr, callee)
	if base != nil {
		return *base, wb
	}
	_ = baseIsAddr
	switch {
	case wantPtr && !havePtr:
		// implicit &x
		x := ast.Unparen(recvExpr)
		if id, ok := x.(*ast.Ident); ok {
			if v, ok := u.info.Uses[id].(*types.Var); ok && u.boxed[v] {
				r, has := st.vars[v]
				if !has {
					u.declareVar(st, v, u.zeroOf(v.Type()))
					r = st.vars[v]
				}
				return Term{S: r.S, T: types.NewPointer(rt)}, nil
			}
		}
		val := u.eval(st, recvExpr)
		r := u.allocCell(st, rt, val.S)
		u.c.note("pointer-receiver call on %s: copy-in/copy-out (callee assumed not to retain the receiver)", u.exprText(recvExpr))
		return Term{S: r, T: types.NewPointer(rt)}, func() {
			if ct, _ := u.eng.contractFor(callee); ct != nil && !ct.ModifiesAll && !modifiesNames(ct, sig.Recv().Name()) {
				return
			}
			nv := u.loadCell(st, rt, r)
			u.assign(st, recvExpr, nv)
		}
	case !wantPtr && havePtr:
		p := u.eval(st, recvExpr)
		u.checkNonNil(st, p, recvExpr)
		v := u.loadCell(st, rt.Underlying().(*types.Pointer).Elem(), p.S)
		u.assumeRange(st, v)
		return v, nil
	}
	return u.eval(st, recvExpr), nil
}

// receiverBase resolves promoted-method receivers (x.Embedded.M written as x.M).
func (u *Unit) receiverBase(st *State, recvExpr ast.Expr, callee *types.Func) (*Term, bool, func()) {
	// find the selection for the call's Fun to get the implicit field path
	return nil, false, nil
}

func (u *Unit) callFunc(st *State, e *ast.CallExpr, callee *types.Func, recvExpr ast.Expr) Term {
	sig := callee.Type().(*types.Signature)
	if isig, ok := u.typeOf(e.Fun).(*types.Signature); ok && sig.TypeParams() != nil && sig.TypeParams().Len() > 0 {
		sig = isig // instantiated signature of a generic function
	}
	// promoted method: rewrite receiver expression to include the embedded path
	if recvExpr != nil {
		if se, ok := ast.Unparen(e.Fun).(*ast.SelectorExpr); ok {
			if sel, ok := u.info.Selections[se]; ok && len(sel.Index()) > 1 {
				return u.callPromoted(st, e, callee, se, sel)
			}
		}
	}
	ca, after := u.evalArgs(st, e, sig, recvExpr, callee)
	ca.isig = sig
	ct, _ := u.eng.contractFor(callee)
	inl := ct != nil && ct.Inline
	if ct == nil && callee.Pkg() == u.pkg.Types && u.eng.isNewFunc(u.pkgName, calleeKey(callee.Origin())) {
		inl = true // a helper added after the contracts were written (bindings.go)
	}
	if inl && callee.Pkg() == u.pkg.Types && !sig.Variadic() {
		if fd, _ := u.eng.findFunc(u.pkg, calleeKey(callee.Origin())); fd != nil && fd.Body != nil {
			res := u.execDeclInline(st, e, callee, fd, ca.recv, ca.args)
			for _, f := range after {
				f()
			}
			return res
		}
	}
	res := u.applyCallee(st, e, callee, ca)
	for _, f := range after {
		f()
	}
	return res
}

// callPromoted handles x.M() where M is promoted from an embedded field.
func (u *Unit) callPromoted(st *State, e *ast.CallExpr, callee *types.Func, se *ast.SelectorExpr, sel *types.Selection) Term {
	sig := callee.Type().(*types.Signature)
	path := sel.Index()[:len(sel.Index())-1]
	base := u.eval(st, se.X)
	cur := base
	type step struct {
		container Term // struct value or pointer
		idx       int
		viaPtr    bool
	}
	var steps []step
	for _, i := range path {
		viaPtr := false
		if pt, ok := cur.T.Underlying().(*types.Pointer); ok {
			u.checkNonNil(st, cur, se.X)
			steps = append(steps, step{cur, i, true})
			cur = u.loadCell(st, pt.Elem(), cur.S)
			viaPtr = true
		} else {
			steps = append(steps, step{cur, i, false})
		}
		_ = viaPtr
		cur = u.fieldGet(cur, i)
	}
	u.assumeRange(st, cur)
	want := sig.Recv().Type()
	_, wantPtr := want.Underlying().(*types.Pointer)
	_, havePtr := cur.T.Underlying().(*types.Pointer)
	var recv Term
	var wb func()
	switch {
	case wantPtr && !havePtr:
		r := u.allocCell(st, cur.T, cur.S)
		recv = Term{S: r, T: types.NewPointer(cur.T)}
		embT := cur.T
		u.c.note("pointer-receiver call on embedded field of %s: copy-in/copy-out", u.exprText(se.X))
		wb = func() {
			if ct, _ := u.eng.contractFor(callee); ct != nil && !ct.ModifiesAll && !modifiesNames(ct, sig.Recv().Name()) {
				return // the callee's frame leaves the receiver untouched
			}
			nv := u.loadCell(st, embT, r)
			// rebuild outwards until a pointer hop (or the base expression)
			inner := nv.S
			for d := len(steps) - 1; d >= 0; d-- {
				s0 := steps[d]
				if s0.viaPtr {
					pt := s0.container.T.Underlying().(*types.Pointer)
					old := u.loadCell(st, pt.Elem(), s0.container.S)
					u.storeCell(st, pt.Elem(), s0.container.S, u.fieldSet(old, s0.idx, inner).S)
					return
				}
				inner = u.fieldSet(s0.container, s0.idx, inner).S
			}
			u.assign(st, se.X, Term{S: inner, T: base.T})
		}
	case !wantPtr && havePtr:
		u.checkNonNil(st, cur, se.X)
		recv = u.loadCell(st, cur.T.Underlying().(*types.Pointer).Elem(), cur.S)
	default:
		recv = cur
	}
	ca, after := u.evalArgs(st, e, sig, nil, callee)
	ca.recv = &recv
	res := u.applyCallee(st, e, callee, ca)
	if wb != nil {
		wb()
	}
	for _, f := range after {
		f()
	}
	return res
}

func modifiesNames(ct *FuncContract, name string) bool {
	for _, m := range ct.Modifies {
		found := false
		ast.Inspect(m.Expr, func(n ast.Node) bool {
			if id, ok := n.(*ast.Ident); ok && id.Name == name {
				found = true
			}
			return true
		})
		if found {
			return true
		}
	}
	return false
}

func resultTerm(ts []Term) Term {
	if len(ts) == 1 {
		return ts[0]
	}
	return Term{Tuple: ts}
}

func (u *Unit) freshResults(st *State, sig *types.Signature, hint string) []Term {
	var rs []Term
	for i := 0; i < sig.Results().Len(); i++ {
		rs = append(rs, u.freshOf(st, sig.Results().At(i).Type(), hint))
	}
	if rs == nil {
		rs = []Term{}
	}
	return rs
}

// applyCallee: contract if there is one, library model if known, otherwise havoc.
func (u *Unit) applyCallee(st *State, e *ast.CallExpr, callee *types.Func, ca callArgs) Term {
	sig := callee.Type().(*types.Signature)
	if ca.recv != nil && sig.Recv() != nil && ca.recv.T != nil {
		switch ca.recv.T.Underlying().(type) {
		case *types.Pointer:
			u.checkNonNilTerm(st, *ca.recv, e, "receiver of "+u.exprTextShort(e.Fun))
		case *types.Interface:
			if !isEmptyInterface(ca.recv.T) && u.c.sortOf(ca.recv.T) == "Int" {
				u.checkNonNilTerm(st, *ca.recv, e, "receiver of "+u.exprTextShort(e.Fun))
			}
		}
	}
	if callee.Pkg() != nil {
		if ct, cset := u.eng.contractFor(callee); ct != nil {
			return u.applyContract(st, e, callee, ct, cset, ca)
		}
	}
	if sub, key := u.fncallFor(e); sub != nil {
		return u.applyFnCall(st, e, sig, sub, key, ca)
	}
	if r, ok := u.libModel(st, e, callee, ca); ok {
		return r
	}
	// lock ghost for sync mutexes is part of libModel; unknown callee:
	full := callee.FullName()
	if u.eng.isPureExternal(callee) {
		return resultTerm(u.freshResults(st, sig, "ext"))
	}
	if callee.Pkg() != nil && callee.Pkg() == u.pkg.Types {
		for _, g := range sortedKeys(st.ghost) {
			if strings.HasPrefix(g, "held:") && st.ghost[g] != "0" {
				u.emit(st, "lock", u.safetyName("lock-call", strings.TrimPrefix(g, "held:")+"@"+callee.Name()), "no call of an uncontracted function of this package while "+strings.TrimPrefix(g, "held:")+" is held (it could re-acquire the lock)", e.Pos(), eq(st.ghost[g], "0"))
			}
		}
	}
	u.unsupportedf(e.Pos(), "call of uncontracted %s: heaps havoced, results arbitrary", full)
	u.havocAllHeaps(st)
	u.bumpAlloc(st)
	return resultTerm(u.freshResults(st, sig, "ret"))
}

// fncallFor: the `fncall <expr> ...` sub-contract of the unit's contract that matches the callee expression of e, if any.
func (u *Unit) fncallFor(e *ast.CallExpr) (*FuncContract, string) {
	if u.ct == nil || u.ct.FnCalls == nil {
		return nil, ""
	}
	key := strings.Join(strings.Fields(u.exprText(e.Fun)), "")
	// site-specific block `fncall <expr>#k ...`: the k-th call site (source order, 0-based) with that callee text
	site := -1
	if u.decl != nil {
		k := 0
		ast.Inspect(u.decl.Body, func(n ast.Node) bool {
			if c, ok := n.(*ast.CallExpr); ok && site < 0 {
				if c == e {
					site = k
				} else if strings.Join(strings.Fields(u.exprText(c.Fun)), "") == key {
					k++
				}
			}
			return site < 0
		})
	}
	gen := u.ct.FnCalls[key]
	var spec *FuncContract
	skey := key
	if site >= 0 {
		if b := u.baseSite(key, site); b >= 0 {
			skey = fmt.Sprintf("%s#%d", key, b)
			spec = u.ct.FnCalls[skey]
		} else {
			skey = fmt.Sprintf("%s#new%d", key, site) // a call the contract was not written for: general clauses only
		}
	}
	switch {
	case gen != nil && spec != nil:
		m := &FuncContract{Key: skey, Mode: gen.Mode, Loops: map[int]*LoopContract{}, FnPure: map[string]bool{}}
		m.Requires = append(append([]Clause{}, gen.Requires...), spec.Requires...)
		m.Ensures = append(append([]Clause{}, gen.Ensures...), spec.Ensures...)
		m.Modifies = append(append([]Clause{}, gen.Modifies...), spec.Modifies...)
		return m, skey
	case spec != nil:
		return spec, skey
	case gen != nil:
		if site >= 0 {
			return gen, skey
		}
		return gen, key
	}
	return nil, ""
}

// applyFnCall applies an assumed (trusted, listed) contract of a callee that has none of its own: a function value, an
// external function/method, or an uncontracted repository function of another package. Only the listed modifies targets
// are havoced; the preconditions are proof obligations at the call site.
func (u *Unit) applyFnCall(st *State, e *ast.CallExpr, sig *types.Signature, sub *FuncContract, key string, ca callArgs) Term {
	names := map[string]Term{}
	for i := 0; i < sig.Params().Len() && i < len(ca.args); i++ {
		if n := sig.Params().At(i).Name(); n != "" && n != "_" {
			a := ca.args[i]
			a.T = sig.Params().At(i).Type()
			names[n] = a
		}
		names[fmt.Sprintf("arg%d", i)] = ca.args[i]
	}
	if ca.recv != nil {
		names["recv"] = *ca.recv
	}
	pre := st.clone()
	env := &SpecEnv{u: u, st: st, old: pre, names: names, cs: u.cs, pkg: u.pkg.Types, own: true, scopePos: e.Pos(), loopInv: true}
	for i, r := range sub.Requires {
		g := env.evalBool(r.Expr)
		u.emit(st, "pre", fmt.Sprintf("pre(fncall %s)#%d", key, i), "precondition of function value "+key+": "+r.Text, e.Pos(), g)
		st.assume(g)
	}
	u.bumpAlloc(st)
	for _, m := range sub.Modifies {
		u.havocTarget(st, env, m)
	}
	rs := u.freshResults(st, sig, "fv")
	for i := 0; i < sig.Results().Len(); i++ {
		if n := sig.Results().At(i).Name(); n != "" && n != "_" {
			names[n] = rs[i]
		}
		names[fmt.Sprintf("result%d", i)] = rs[i]
		if i == 0 {
			names["result"] = rs[i]
		}
	}
	env2 := &SpecEnv{u: u, st: st, old: pre, names: names, cs: u.cs, pkg: u.pkg.Types, own: true, scopePos: e.Pos(), loopInv: true}
	for _, en := range sub.Ensures {
		st.assume(env2.evalBool(en.Expr))
	}
	u.c.note("call %s uses the assumed fncall contract (trusted boundary)", key)
	return resultTerm(rs)
}

func (u *Unit) callDynamic(st *State, e *ast.CallExpr) Term {
	ft := u.typeOf(e.Fun)
	sig, ok := ft.Underlying().(*types.Signature)
	if !ok {
		return u.abstractExpr(st, e, "dynamic call")
	}
	f := u.eval(st, e.Fun)
	u.checkNonNilTerm(st, f, e.Fun, u.exprText(e.Fun))
	ca, after := u.evalArgs(st, e, sig, nil, nil)
	defer func() {
		for _, g := range after {
			g()
		}
	}()
	// assumed contract of this function value (fncall directive of the unit's contract)
	if sub, key := u.fncallFor(e); sub != nil {
		return u.applyFnCall(st, e, sig, sub, key, ca)
	}
	// function-typed parameter declared pure: results are functions of (f, args)
	if id, ok := ast.Unparen(e.Fun).(*ast.Ident); ok && u.ct != nil && u.ct.FnPure[id.Name] {
		var rs []Term
		for i := 0; i < sig.Results().Len(); i++ {
			rs = append(rs, u.pureApply(st, f, ca.args, i, sig.Results().At(i).Type()))
		}
		return resultTerm(rs)
	}
	for _, g := range sortedKeys(st.ghost) {
		if strings.HasPrefix(g, "held:") && st.ghost[g] != "0" {
			u.emit(st, "lock", u.safetyName("lock-call-dyn", strings.TrimPrefix(g, "held:")+"@"+u.exprTextShort(e.Fun)), "no call through an unknown function value while "+strings.TrimPrefix(g, "held:")+" is held (it could re-acquire the lock)", e.Pos(), eq(st.ghost[g], "0"))
		}
	}
	u.unsupportedf(e.Pos(), "call through function value %s: heaps havoced, results arbitrary", u.exprText(e.Fun))
	u.havocAllHeaps(st)
	u.bumpAlloc(st)
	return resultTerm(u.freshResults(st, sig, "dyn"))
}

// pureApply: i-th result of calling function value f on args, as an uninterpreted function.
func (u *Unit) pureApply(st *State, f Term, args []Term, i int, rt types.Type) Term {
	var sorts []string
	var as []string
	sorts = append(sorts, "Int")
	as = append(as, f.S)
	for _, a := range args {
		sorts = append(sorts, u.c.sortOf(a.T))
		as = append(as, a.S)
	}
	name := fmt.Sprintf("res%d_%s", i, sanitize(strings.Join(sorts[1:], "_")+"_"+u.c.sortOf(rt)))
	u.c.declareFun(name, "("+strings.Join(sorts, " ")+") "+u.c.sortOf(rt))
	t := Term{S: "(" + name + " " + strings.Join(as, " ") + ")", T: rt}
	if st != nil {
		u.assumeRange(st, t)
	}
	return t
}

// applyContract uses the callee's contract at a call site.
// spawnContracted handles `go f(args)` for a repository function f with a (non-inline) contract: f's preconditions are
// checked at the spawn, its modifies targets are havoced now and again at every later synchronisation point (resync);
// its postconditions are not used. Returns false when the callee has no usable contract.
func (u *Unit) spawnContracted(st *State, e *ast.CallExpr) bool {
	callee, recvExpr := u.staticCallee(e)
	if callee == nil || callee.Pkg() == nil || !u.eng.isRepoPkg(callee.Pkg().Path()) {
		return false
	}
	cset := u.eng.contractsOf(callee.Pkg().Path())
	ct := cset.Funcs[calleeKey(callee)]
	if ct == nil || ct.ModifiesAll || ct.NoFrame {
		return false
	}
	sig := callee.Type().(*types.Signature)
	ca, _ := u.evalArgs(st, e, sig, recvExpr, callee)
	names := map[string]Term{}
	if sig.Recv() != nil && ca.recv != nil {
		if n := sig.Recv().Name(); n != "" && n != "_" {
			r := *ca.recv
			r.T = sig.Recv().Type()
			names[n] = r
		}
	}
	for i := 0; i < sig.Params().Len() && i < len(ca.args); i++ {
		p := sig.Params().At(i)
		if p.Name() != "" && p.Name() != "_" {
			a := ca.args[i]
			a.T = p.Type()
			names[p.Name()] = a
		}
	}
	u.eng.aliasSigNames(names, callee, sig, "params")
	pre := st.clone()
	env := &SpecEnv{u: u, st: st, old: pre, names: names, cs: cset, pkg: callee.Pkg(), calleeSig: sig}
	for i, r := range ct.Requires {
		if strings.Contains(r.Text, "held(") {
			continue // the new goroutine holds no lock; lock-state preconditions speak about the spawner
		}
		g := env.evalBool(r.Expr)
		u.emit(st, "pre", fmt.Sprintf("pre(go %s)#%d[%s]", calleeKey(callee), i, u.exprTextShort(e)), "precondition of spawned "+calleeKey(callee)+": "+r.Text, e.Pos(), g)
	}
	havoc := func(s2 *State) {
		u.bumpAlloc(s2)
		env2 := &SpecEnv{u: u, st: s2, old: pre, names: names, cs: cset, pkg: callee.Pkg(), calleeSig: sig}
		for _, m := range ct.Modifies {
			u.havocTarget(s2, env2, m)
		}
	}
	havoc(st)
	u.spawned = append(u.spawned, havoc)
	u.calledContracts[calleeKey(callee)] = true
	u.c.note("go %s: spawned with its contract (modifies targets havoced here and at every later synchronisation point; data-race freedom assumed)", calleeKey(callee))
	return true
}

// renameParams: the tuple with the TYPES of `inst` and the NAMES of `generic` (instantiated signatures keep names, but be safe).
func renameParams(generic, inst *types.Tuple) *types.Tuple {
	if generic == nil || inst == nil || generic.Len() != inst.Len() {
		return generic
	}
	var vs []*types.Var
	for i := 0; i < generic.Len(); i++ {
		g := generic.At(i)
		vs = append(vs, types.NewVar(g.Pos(), g.Pkg(), g.Name(), inst.At(i).Type()))
	}
	return types.NewTuple(vs...)
}

// splitConj: the top-level conjuncts of a contract expression.
func splitConj(e ast.Expr) []ast.Expr {
	if b, ok := ast.Unparen(e).(*ast.BinaryExpr); ok && b.Op == token.LAND {
		return append(splitConj(b.X), splitConj(b.Y)...)
	}
	return []ast.Expr{e}
}

func mentionsHeldCall(e ast.Expr) bool {
	found := false
	ast.Inspect(e, func(n ast.Node) bool {
		if c, ok := n.(*ast.CallExpr); ok {
			if id, ok := c.Fun.(*ast.Ident); ok && id.Name == "held" {
				found = true
			}
		}
		return !found
	})
	return found
}

func (u *Unit) applyContract(st *State, e *ast.CallExpr, callee *types.Func, ct *FuncContract, cset *ContractSet, ca callArgs) Term {
	sig := callee.Type().(*types.Signature)
	if isig, ok := u.typeOf(e.Fun).(*types.Signature); ok && sig.TypeParams() != nil && sig.TypeParams().Len() > 0 && isig.Params().Len() == sig.Params().Len() {
		// generic callee: use the instantiated signature, so that `modifies a` of a []T parameter names the element heap
		// of the ACTUAL element type (and not an unrelated heap of the type parameter)
		sig = types.NewSignatureType(sig.Recv(), nil, nil, renameParams(sig.Params(), isig.Params()), renameParams(sig.Results(), isig.Results()), sig.Variadic())
	}
	names := map[string]Term{}
	if sig.Recv() != nil && ca.recv != nil {
		if n := sig.Recv().Name(); n != "" && n != "_" {
			r := *ca.recv
			r.T = sig.Recv().Type()
			names[n] = r
		}
	}
	for i := 0; i < sig.Params().Len() && i < len(ca.args); i++ {
		p := sig.Params().At(i)
		if p.Name() != "" && p.Name() != "_" {
			a := ca.args[i]
			a.T = p.Type()
			names[p.Name()] = a
		}
	}
	u.eng.aliasSigNames(names, callee, sig, "params")
	pre := st.clone()
	env := &SpecEnv{u: u, st: st, old: pre, names: names, cs: cset, pkg: callee.Pkg(), calleeSig: sig}
	for i, r := range ct.Requires {
		if strings.Contains(r.Text, "held(") {
			// lock-state conjuncts (callee acquires the lock itself / needs it held) are lock obligations; the rest stays `pre`
			var lockParts, rest []string
			for _, cj := range splitConj(r.Expr) {
				if mentionsHeldCall(cj) {
					lockParts = append(lockParts, env.evalBool(cj))
				} else {
					rest = append(rest, env.evalBool(cj))
				}
			}
			if len(lockParts) > 0 {
				gl := and(lockParts...)
				u.emit(st, "lock", fmt.Sprintf("pre(%s)#%d.lock[%s]", calleeKey(callee), i, u.exprTextShort(e)), "lock-state precondition of "+calleeKey(callee)+": "+r.Text, e.Pos(), gl)
				st.assume(gl)
			}
			if len(rest) > 0 {
				gr := and(rest...)
				u.emit(st, "pre", fmt.Sprintf("pre(%s)#%d[%s]", calleeKey(callee), i, u.exprTextShort(e)), "precondition of "+calleeKey(callee)+": "+r.Text, e.Pos(), gr)
				st.assume(gr)
			}
			continue
		}
		g := env.evalBool(r.Expr)
		u.emit(st, "pre", fmt.Sprintf("pre(%s)#%d[%s]", calleeKey(callee), i, u.exprTextShort(e)), "precondition of "+calleeKey(callee)+": "+r.Text, e.Pos(), g)
		st.assume(g)
	}
	// call-site obligations of the CALLER's contract (`fncall <callee-expr>[#k] requires ...` for a contracted callee):
	// additional conditions this caller promises to establish at this call (arg0.., recv, the caller's own names)
	if sub, key := u.fncallFor(e); sub != nil {
		snames := map[string]Term{} // the caller's scope: callee parameter names are NOT bound (use arg0.. / recv)
		for i := range ca.args {
			snames[fmt.Sprintf("arg%d", i)] = ca.args[i]
		}
		if ca.recv != nil {
			snames["recv"] = *ca.recv
		}
		senv := &SpecEnv{u: u, st: st, old: pre, names: snames, cs: u.cs, pkg: u.pkg.Types, own: true, scopePos: e.Pos(), loopInv: true}
		for i, r := range sub.Requires {
			g := senv.evalBool(r.Expr)
			u.emit(st, "pre", fmt.Sprintf("pre(site %s)#%d", key, i), "call-site condition of this function's contract at "+key+": "+r.Text, e.Pos(), g)
			st.assume(g)
		}
		if len(sub.Ensures) > 0 || len(sub.Modifies) > 0 {
			u.specErrors = append(u.specErrors, fmt.Sprintf("fncall %s: the callee has a contract of its own; only `requires` (call-site conditions) may be added", key))
		}
	}
	for i, r := range ct.Panics {
		g := not(env.evalBool(r.Expr))
		if u.ct != nil && len(u.ct.Panics) > 0 {
			// a panic of the callee is allowed where this function itself is declared to panic
			own := &SpecEnv{u: u, st: st, old: u.entry, names: map[string]Term{}, cs: u.cs, pkg: u.pkg.Types, own: true, scopePos: u.bodyPos}
			var alts []string
			for _, p := range u.ct.Panics {
				alts = append(alts, own.evalBool(p.Expr))
			}
			u.emit(st, "pre", fmt.Sprintf("nopanic(%s)#%d[%s]", calleeKey(callee), i, u.exprTextShort(e)), "callee "+calleeKey(callee)+" panics only where this function is declared to panic: "+r.Text, e.Pos(), or(g, or(alts...)))
			st.assume(g)
			continue
		}
		u.emit(st, "pre", fmt.Sprintf("nopanic(%s)#%d[%s]", calleeKey(callee), i, u.exprTextShort(e)), "callee "+calleeKey(callee)+" does not panic: not ("+r.Text+")", e.Pos(), g)
		st.assume(g)
	}
	// frame (the callee may have allocated: bump the allocation counter first so that havoced cells may hold fresh refs)
	u.bumpAlloc(st)
	if ct.ModifiesAll {
		u.havocAllHeaps(st)
	} else {
		for _, m := range ct.Modifies {
			u.havocTarget(st, env, m)
		}
		if !declaresGhostFrame(ct) {
			u.havocHeap(st, u.ghostHeap("consumed"))
			u.havocHeap(st, u.ghostHeap("written"))
		}
	}
	// results
	rs := u.freshResults(st, sig, "r_"+callee.Name())
	if ct.Pure {
		// a pure function: its results are functions of its argument values
		var args []Term
		if ca.recv != nil {
			args = append(args, *ca.recv)
		}
		args = append(args, ca.args...)
		for i := range rs {
			pt := u.pureFuncApp(callee, args, i)
			st.assume(eq(rs[i].S, pt.S))
		}
	}
	for i := 0; i < sig.Results().Len(); i++ {
		rv := sig.Results().At(i)
		if rv.Name() != "" && rv.Name() != "_" {
			names[rv.Name()] = rs[i]
		}
		names[fmt.Sprintf("result%d", i)] = rs[i]
	}
	u.eng.aliasSigNames(names, callee, sig, "results")
	if len(rs) >= 1 {
		names["result"] = rs[0]
	}
	env2 := &SpecEnv{u: u, st: st, old: pre, names: names, cs: cset, pkg: callee.Pkg(), calleeSig: sig}
	for _, en := range ct.Ensures {
		nerr := len(u.specErrors)
		f := env2.evalBool(en.Expr)
		if len(u.specErrors) > nerr {
			// the clause names something that exists only inside the callee (a local): callers cannot use it
			u.specErrors = u.specErrors[:nerr]
			continue
		}
		st.assume(f)
		u.recordLenHints(f)
	}
	// heap well-formedness for the references the clauses looked at: stored pointers/slices are allocated
	for _, r := range env2.reads {
		if !reBoundVar.MatchString(r.S) {
			u.assumeRange(st, r)
		}
	}
	u.calledContracts[calleeKeyFull(callee)] = true
	return resultTerm(rs)
}

var reBoundVar = regexp.MustCompile(`_q[0-9]+`)

var reLenHint = regexp.MustCompile(`\(= \(s\.len ([^ ()]+)\) (?:\(_ bv(\d+) 64\)|(\d+))\)`)

// recordLenHints notes facts of the form len(x) == K that appear as top-level conjuncts.
func (u *Unit) recordLenHints(f string) {
	conj := []string{f}
	if strings.HasPrefix(f, "(and ") {
		conj = splitSexp(f[5 : len(f)-1])
	}
	for _, cj := range conj {
		m := reLenHint.FindStringSubmatch(cj)
		if m == nil || m[0] != cj {
			continue
		}
		num := m[2]
		if num == "" {
			num = m[3]
		}
		var k int64
		if _, err := fmt.Sscanf(num, "%d", &k); err == nil && k <= 4096 {
			u.lenHints[m[1]] = k
		}
	}
}

// pureFuncApp: i-th result of a pure repo function as an uninterpreted function of its arguments.
func (u *Unit) pureFuncApp(callee *types.Func, args []Term, i int) Term {
	sig := callee.Type().(*types.Signature)
	var sorts, as []string
	for _, a := range args {
		sorts = append(sorts, u.c.sortOf(a.T))
		as = append(as, a.S)
	}
	rt := sig.Results().At(i).Type()
	name := fmt.Sprintf("pf%d_%s", i, sanitize(callee.FullName()))
	u.c.declareFun(name, "("+strings.Join(sorts, " ")+") "+u.c.sortOf(rt))
	if len(as) == 0 {
		return Term{S: name, T: rt}
	}
	return Term{S: "(" + name + " " + strings.Join(as, " ") + ")", T: rt}
}

func (u *Unit) exprTextShort(e ast.Node) string {
	s := strings.Join(strings.Fields(u.exprText(e)), "")
	if len(s) > 40 {
		s = s[:40]
	}
	return s
}

func calleeKey(f *types.Func) string {
	sig := f.Type().(*types.Signature)
	if sig.Recv() == nil {
		return f.Name()
	}
	rt := sig.Recv().Type()
	ptr := ""
	if p, ok := rt.(*types.Pointer); ok {
		rt = p.Elem()
		ptr = "*"
	}
	name := "?"
	if n, ok := rt.(*types.Named); ok {
		name = n.Obj().Name()
	}
	return "(" + ptr + name + ")." + f.Name()
}

func calleeKeyFull(f *types.Func) string {
	p := ""
	if f.Pkg() != nil {
		p = f.Pkg().Path()
	}
	return p + "::" + calleeKey(f)
}

// havocTarget havocs what a modifies clause names: a slice's elements, a pointer's cell, a map.
// declaresGhostFrame: the contract says which ghost byte counters the function advances (modifies written(x) / consumed(x)).
// Without such a clause nothing is promised about the counters: callers forget them and no ghost-frame obligation is generated.
func declaresGhostFrame(ct *FuncContract) bool {
	if ct == nil {
		return false
	}
	// frame-checked functions promise (and are checked for) ghost counters too; noframe / modifies-all ones promise nothing
	return !ct.NoFrame && !ct.ModifiesAll
}

func ghostModifies(m Clause) (string, ast.Expr, bool) {
	if c, ok := ast.Unparen(m.Expr).(*ast.CallExpr); ok {
		if id, ok := c.Fun.(*ast.Ident); ok && (id.Name == "written" || id.Name == "consumed") && len(c.Args) == 1 {
			return id.Name, c.Args[0], true
		}
	}
	return "", nil, false
}

// typeWideModifies: `modifies allof(e)`: every element of every slice block of e's element type may change (for
// functions that write a family of slices no single expression can name, e.g. all 65536 bucket slices).
func typeWideModifies(m Clause) (ast.Expr, bool) {
	if c, ok := ast.Unparen(m.Expr).(*ast.CallExpr); ok {
		if id, ok := c.Fun.(*ast.Ident); ok && id.Name == "allof" && len(c.Args) == 1 {
			return c.Args[0], true
		}
	}
	return nil, false
}

// typeWideHeap: the heap named by the argument of allof(): the element heap of a slice type literal ([]uint64) or of a
// slice-typed expression, or the cell heap of a pointer type literal (*flushBuffer) / pointer-typed expression.
func (u *Unit) typeWideHeap(env *SpecEnv, arg ast.Expr) string {
	var t types.Type
	switch x := ast.Unparen(arg).(type) {
	case *ast.ArrayType:
		if x.Len == nil {
			_, t = env.specSort(u.exprText(arg))
		}
	case *ast.StarExpr:
		if _, et := env.specSort(u.exprText(x.X)); et != nil {
			t = types.NewPointer(et)
		}
	}
	if t == nil {
		if v := env.eval(arg); v.T != nil {
			t = v.T
		}
	}
	if t == nil {
		return ""
	}
	switch ut := t.Underlying().(type) {
	case *types.Slice:
		return u.elemHeap(ut.Elem())
	case *types.Pointer:
		return u.cellHeapName(ut.Elem())
	}
	return ""
}

func (u *Unit) havocTarget(st *State, env *SpecEnv, m Clause) {
	if arg, ok := typeWideModifies(m); ok {
		if h := u.typeWideHeap(env, arg); h != "" {
			u.havocHeap(st, h)
			return
		}
		u.c.note("modifies allof(%s): not a slice-typed expression", m.Text)
		u.havocAllHeaps(st)
		return
	}
	if name, arg, ok := ghostModifies(m); ok {
		ref := env.eval(arg)
		h := u.ghostHeap(name)
		cur := u.heapRead(st, h)
		nv := u.c.fresh("cnt", "Int")
		u.heapWrite(st, h, fmt.Sprintf("(store %s %s %s)", cur, ref.S, nv))
		return
	}
	t := env.eval(m.Expr)
	if t.T == nil {
		return
	}
	c := u.c
	switch ut := t.T.Underlying().(type) {
	case *types.Slice:
		h := u.elemHeap(ut.Elem())
		cur := u.heapRead(st, h)
		oldBlk := fmt.Sprintf("(select %s %s)", cur, sRef(t.S))
		nb := c.fresh("blk", fmt.Sprintf("(Array %s %s)", c.idxSort(), c.sortOf(ut.Elem())))
		k := c.fresh("k", c.idxSort())
		out := or(c.idxLt(k, sOff(t.S)), c.idxLe(c.idxAdd(sOff(t.S), sLen(t.S)), k))
		u.assumeForall(st, k, c.idxSort(), implies(out, eq(fmt.Sprintf("(select %s %s)", nb, k), fmt.Sprintf("(select %s %s)", oldBlk, k))), fmt.Sprintf("(select %s %s)", nb, k))
		u.heapWrite(st, h, fmt.Sprintf("(store %s %s %s)", cur, sRef(t.S), nb))
	case *types.Pointer:
		if at, ok := ut.Elem().Underlying().(*types.Array); ok {
			h := u.elemHeap(at.Elem())
			cur := u.heapRead(st, h)
			nb := c.fresh("blk", fmt.Sprintf("(Array %s %s)", c.idxSort(), c.sortOf(at.Elem())))
			u.heapWrite(st, h, fmt.Sprintf("(store %s %s %s)", cur, t.S, nb))
			return
		}
		h := u.ptrHeap(ut.Elem())
		cur := u.heapRead(st, h)
		nv := u.freshOf(st, ut.Elem(), "cell")
		if nm, ok := ut.Elem().(*types.Named); ok {
			// `final` fields of the cell keep their value (only constructors assign them)
			for _, i := range u.eng.finalFields(nm) {
				st.assume(eq(u.fieldGet(nv, i).S, u.fieldGet(Term{S: fmt.Sprintf("(select %s %s)", cur, t.S), T: nm}, i).S))
			}
		}
		u.heapWrite(st, h, fmt.Sprintf("(store %s %s %s)", cur, t.S, nv.S))
	case *types.Map:
		hp, hv := u.mapHeaps(ut)
		u.havocHeap(st, hp)
		u.havocHeap(st, hv)
	default:
		u.c.note("modifies clause %q names a value that is not a slice, pointer or map", m.Text)
	}
}
