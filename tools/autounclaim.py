#!/usr/bin/env python3
"""autounclaim.py <PROP> [--slow SECONDS] [--dry]

Maintenance tool (never run by a check): after `bin/vcgo check <PROP>` on the PINNED tree, read out/<PROP>/obligations.json
and mark every claimed obligation that is not discharged, or that needed a retry / more than --slow seconds, as
`unclaimed` (exact name, "=<kind>") in props/<PROP>.json. The reason is recorded per unit in `why`; the obligations stay
visible in the evidence file (`unclaimed_by_name`). An unclaimed obligation is a statement the machinery does NOT decide;
before unclaiming a non-discharged obligation it must have been triaged (genuine defect -> fix / known finding;
limitation of the engine or the contract -> unclaimed). The tool only edits the props file; review the diff.
"""
import json, sys, os

def main():
    args = sys.argv[1:]
    slow = 6.0
    dry = False
    if '--slow' in args:
        i = args.index('--slow'); slow = float(args[i+1]); del args[i:i+2]
    if '--dry' in args:
        args.remove('--dry'); dry = True
    prop = args[0]
    vd = os.path.dirname(os.path.dirname(os.path.abspath(__file__)))
    spec_path = os.path.join(vd, 'props', prop + '.json')
    spec = json.load(open(spec_path))
    obs = json.load(open(os.path.join(vd, 'out', prop, 'obligations.json')))
    # unit lookup by (short package name, func key)
    def short(pkg):
        if pkg.startswith('deprecated/') and os.path.isdir(os.path.join('/repo', pkg[len('deprecated/'):])):
            return 'deprecated_' + pkg[len('deprecated/'):].replace('/', '_')
        if pkg == '.':
            return 'main'
        return None  # resolved by func key only
    units = {}
    for u in spec['units']:
        units.setdefault(u['func'], []).append(u)
    n = 0
    for o in obs:
        if o['expect'] != 'unsat' or o['group'] == 'canary':
            continue
        bad = o['result'] != 'unsat'
        slowish = o['result'] == 'unsat' and (o.get('tries', 1) > 1 or o.get('total_seconds', o['seconds']) > slow)
        if not bad and not slowish:
            continue
        name = o['name']
        head, _, kind = name.partition('/')
        pkgname, _, key = head.partition('.')
        cands = units.get(key, [])
        if len(cands) > 1:
            c2 = [u for u in cands if (short(u['pkg']) or u['pkg'].split('/')[-1]) == pkgname]
            if c2:
                cands = c2
        if not cands:
            print('no unit for', name)
            continue
        u = cands[0]
        pat = '=' + kind
        if pat in u.get('unclaimed', []):
            continue
        u.setdefault('unclaimed', []).append(pat)
        reason = ('not discharged on the pinned tree (%s): limitation of the engine or contract, see not_decided' % o['result']) if bad else \
                 ('discharged but slow/unstable (%.1fs, %d tries): not claimed to keep the quick check free of timeouts' % (o.get('total_seconds', o['seconds']), o.get('tries', 1)))
        why = u.get('why', '')
        tag = '%s: %s' % (kind, reason)
        u['why'] = (why + '; ' if why else '') + tag
        n += 1
        print(('UNCLAIM ' if bad else 'SLOW    ') + name, o['result'], o.get('total_seconds'))
    print(n, 'obligations newly unclaimed')
    if not dry and n:
        json.dump(spec, open(spec_path, 'w'), indent=1)
        open(spec_path, 'a').write('\n')

main()
