package main

import (
	"bytes"
	"context"
	"fmt"
	"os"
	"os/exec"
	"path/filepath"
	"strings"
	"sync"
	"time"
)

type solverSpec struct {
	name string
	argv func(file string, timeoutMs int, seed int) []string
}

var solvers = []solverSpec{
	{"z3-new", func(f string, ms, seed int) []string {
		return []string{"z3-new", fmt.Sprintf("-T:%d", (ms+999)/1000), fmt.Sprintf("smt.random_seed=%d", seed), f}
	}},
	{"z3", func(f string, ms, seed int) []string {
		return []string{"/usr/bin/z3", fmt.Sprintf("-T:%d", (ms+999)/1000), fmt.Sprintf("smt.random_seed=%d", seed), f}
	}},
	{"z3-new-mbqi", func(f string, ms, seed int) []string {
		return []string{"z3-new", fmt.Sprintf("-T:%d", (ms+999)/1000), "smt.ematching=false", fmt.Sprintf("smt.random_seed=%d", seed), f}
	}},
	{"z3-new-euf", func(f string, ms, seed int) []string {
		return []string{"z3-new", fmt.Sprintf("-T:%d", (ms+999)/1000), "sat.euf=true", fmt.Sprintf("smt.random_seed=%d", seed), f}
	}},
	{"cvc5", func(f string, ms, seed int) []string {
		return []string{"cvc5", fmt.Sprintf("--tlimit=%d", ms), "--full-saturate-quant", fmt.Sprintf("--seed=%d", seed), f}
	}},
}

func runSolver(ctx context.Context, sp solverSpec, file string, ms, seed int) (string, string) {
	argv := sp.argv(file, ms, seed)
	cctx, cancel := context.WithTimeout(ctx, time.Duration(ms+2000)*time.Millisecond)
	defer cancel()
	cmd := exec.CommandContext(cctx, argv[0], argv[1:]...)
	var out bytes.Buffer
	cmd.Stdout = &out
	cmd.Stderr = &out
	_ = cmd.Run()
	text := out.String()
	first := strings.TrimSpace(strings.SplitN(text, "\n", 2)[0])
	switch first {
	case "unsat", "sat", "unknown":
		return first, text
	}
	if cctx.Err() != nil || strings.Contains(text, "timeout") || strings.Contains(text, "interrupted") {
		return "timeout", text
	}
	return "error", text
}

// finalQuery substitutes the prelude (sorts + every declaration of the unit).
func finalQuery(c *Ctx, q string) string {
	var b strings.Builder
	b.WriteString(c.prelude())
	for _, d := range c.decls {
		b.WriteString(d)
		b.WriteByte('\n')
	}
	return strings.Replace(q, "%%PRELUDE%%\n", b.String(), 1) + "(get-model)\n"
}

type solveJob struct {
	ob  *Obligation
	ctx *Ctx
}

// discharge runs every obligation through the solver portfolio.
func discharge(jobs []solveJob, outDir string, budgetMs int, seed int, workers int) {
	os.MkdirAll(outDir, 0o755)
	var wg sync.WaitGroup
	ch := make(chan solveJob)
	for w := 0; w < workers; w++ {
		wg.Add(1)
		go func() {
			defer wg.Done()
			for j := range ch {
				solveOne(j, outDir, budgetMs, seed)
			}
		}()
	}
	for _, j := range jobs {
		ch <- j
	}
	close(ch)
	wg.Wait()
}

func obFile(outDir string, ob *Obligation) string {
	return filepath.Join(outDir, sanitizeFile(ob.Name)+".smt2")
}

func sanitizeFile(s string) string {
	var b strings.Builder
	for _, r := range s {
		switch {
		case r >= 'a' && r <= 'z', r >= 'A' && r <= 'Z', r >= '0' && r <= '9', r == '_', r == '.', r == '-', r == '#', r == '~':
			b.WriteRune(r)
		default:
			b.WriteByte('_')
		}
	}
	s = b.String()
	if len(s) > 150 {
		s = s[:150]
	}
	return s
}

func solveOne(j solveJob, outDir string, budgetMs, seed int) {
	ob := j.ob
	t0 := time.Now()
	defer func() { ob.Seconds = time.Since(t0).Seconds(); ob.Total += ob.Seconds; ob.Tries++ }()
	// syntactic shortcut: goal literally true
	if strings.Contains(ob.Query, "(assert false)\n(check-sat)") {
		ob.Result, ob.Solver = "unsat", "syntactic"
		return
	}
	text := finalQuery(j.ctx, ob.Query)
	if len(text) > 2_000_000 {
		ob.Result, ob.Solver = "unknown", "too-large"
		return
	}
	file := obFile(outDir, ob)
	if err := os.WriteFile(file, []byte(text), 0o644); err != nil {
		ob.Result, ob.Solver = "error", err.Error()
		return
	}
	if ob.Group == "canary" {
		// vacuity checks only need a quick look
		res, out := runSolver(context.Background(), solvers[0], file, 2000, seed)
		ob.Result, ob.Solver, ob.Model = res, solvers[0].name, ""
		_ = out
		return
	}
	// stage 1: z3-new alone, short
	first := budgetMs
	if first > 3000 {
		first = 3000
	}
	res, out := runSolver(context.Background(), solvers[0], file, first, seed)
	if res == "unsat" || res == "sat" {
		ob.Result, ob.Solver, ob.Model = res, solvers[0].name, modelOf(res, out)
		return
	}
	// stage 2: race all
	ctx, cancel := context.WithCancel(context.Background())
	defer cancel()
	type r struct{ res, out, name string }
	rc := make(chan r, len(solvers)+2)
	for _, sp := range solvers {
		sp := sp
		go func() {
			res, out := runSolver(ctx, sp, file, budgetMs, seed)
			rc <- r{res, out, sp.name}
		}()
	}
	nRace := len(solvers)
	// weakened variant: the same goal with the existentially quantified hypotheses dropped. Fewer hypotheses make a
	// stronger statement, so `unsat` for the variant proves the obligation; any other answer of the variant is ignored.
	if vtext, ok := dropExistsHyps(text); ok {
		vfile := strings.TrimSuffix(file, ".smt2") + ".noex.smt2"
		if err := os.WriteFile(vfile, []byte(vtext), 0o644); err == nil {
			for _, sp := range solvers[:2] {
				sp := sp
				nRace++
				go func() {
					res, out := runSolver(ctx, sp, vfile, budgetMs, seed)
					if res != "unsat" {
						res = "unknown"
					}
					rc <- r{res, out, sp.name + "-fewer-hyps"}
				}()
			}
		}
	}
	best := r{res: "unknown"}
	for i := 0; i < nRace; i++ {
		x := <-rc
		if x.res == "sat" && x.name == "z3" && strings.Contains(text, "(forall ") {
			// z3 4.8.12 occasionally answers sat on quantified goals the newer solvers cannot decide: not trusted
			x.res = "unknown"
		}
		if x.res == "unsat" || x.res == "sat" {
			// prefer unsat from any solver; a sat answer from one solver is definitive as well
			ob.Result, ob.Solver, ob.Model = x.res, x.name, modelOf(x.res, x.out)
			cancel()
			return
		}
		if best.res == "unknown" && x.res == "timeout" {
			best = x
		}
		if x.res == "error" && best.out == "" {
			best = x
		}
	}
	ob.Result, ob.Solver, ob.Model = best.res, "portfolio", firstLines(best.out, 5)
	if ob.Result == "error" {
		ob.Result = "unknown"
	}
}

// dropExistsHyps removes the hypotheses (assert lines before the final, negated-goal assert) that contain an existential
// quantifier. ok is false when there is nothing to drop.
func dropExistsHyps(text string) (string, bool) {
	lines := strings.Split(text, "\n")
	last := -1
	for i, l := range lines {
		if strings.HasPrefix(l, "(assert ") {
			last = i
		}
	}
	dropped := false
	var kept []string
	for i, l := range lines {
		if i != last && strings.HasPrefix(l, "(assert ") && strings.Contains(l, "(exists ") {
			dropped = true
			continue
		}
		kept = append(kept, l)
	}
	return strings.Join(kept, "\n"), dropped
}

func modelOf(res, out string) string {
	if res != "sat" {
		return ""
	}
	i := strings.Index(out, "\n")
	if i < 0 {
		return ""
	}
	return out[i+1:]
}

func firstLines(s string, n int) string {
	ls := strings.Split(s, "\n")
	if len(ls) > n {
		ls = ls[:n]
	}
	return strings.Join(ls, "\n")
}
