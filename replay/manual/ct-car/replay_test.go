package carreader

import (
	"bufio"
	"bytes"
	"fmt"
	"testing"

	"github.com/ipfs/go-cid"
	"github.com/multiformats/go-multihash"
)

func catch(f func()) (p any) {
	defer func() { p = recover() }()
	f()
	return nil
}

func mkCid() cid.Cid {
	h, _ := multihash.Sum([]byte("x"), multihash.SHA2_256, -1)
	return cid.NewCidV1(cid.DagCBOR, h)
}

// C12/C01: section length prefix smaller than the CID that follows
func TestReplayCidLongerThanSection(t *testing.T) {
	c := mkCid()
	in := append([]byte{3}, c.Bytes()...) // uvarint(3) ‖ 36-byte CID
	in = append(in, 0xAA, 0xBB)
	fmt.Printf("REPLAY input len=%d cidLen=%d declared sectionLen=3\n", len(in), len(c.Bytes()))
	p := catch(func() {
		_, n, data, err := ReadNodeInfoWithData(bufio.NewReader(bytes.NewReader(in)))
		fmt.Printf("REPLAY WithData returned n=%d len(data)=%d err=%v\n", n, len(data), err)
	})
	fmt.Printf("REPLAY ReadNodeInfoWithData: panic=%v\n", p)
	cr := &CarReader{br: bufio.NewReader(bytes.NewReader(in))}
	p = catch(func() { _, _, _, _ = cr.NextNodeBytes() })
	fmt.Printf("REPLAY NextNodeBytes: panic=%v\n", p)
	cr = &CarReader{br: bufio.NewReader(bytes.NewReader(in))}
	p = catch(func() { _, _, _, _ = cr.NextNode() })
	fmt.Printf("REPLAY NextNode: panic=%v\n", p)

	br := bufio.NewReader(bytes.NewReader(in))
	before := br.Buffered()
	_, n, err := ReadNodeInfoWithoutData(br)
	_, _ = br.Peek(1)
	rest, _ := br.Peek(br.Buffered())
	_ = before
	fmt.Printf("REPLAY ReadNodeInfoWithoutData: err=%v returned sectionLength=%d, bytes actually consumed=%d\n", err, n, len(in)-len(rest))
}
