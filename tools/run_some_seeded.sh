#!/bin/bash
# usage: run_some_seeded.sh <seeded-name>...   runs the listed seeded changes (their property's quick check plus checks.txt) and
# replaces / appends their rows in seeded/RESULTS.md (the rows of the other changes are kept). Maintenance tool.
cd /verif
OUT=seeded/RESULTS.md
for name in "$@"; do
  d=seeded/$name
  [ -f $d/patch.diff ] || { echo "no such seeded change: $name"; continue; }
  prop=$(python3 -c "import json;print(json.load(open('$d/meta.json'))['property'])")
  checks="$prop"
  [ -f $d/checks.txt ] && checks="$checks $(cat $d/checks.txt)"
  grep -v "^| $name |" $OUT > $OUT.tmp && mv $OUT.tmp $OUT
  for c in $checks; do
    line=$(tools/run_seeded.sh $name $c 2>&1 | tail -1)
    ex=$(echo "$line" | sed -n 's/.*exit=\([0-9]*\).*/\1/p')
    obs=$(echo "$line" | sed 's/.*violations: //' | cut -c1-300)
    echo "| $name | $prop | $c | $ex | $obs |" >> $OUT
    echo "$name $c exit=$ex"
  done
done
# keep the table sorted by name
python3 - <<'PY'
p='/verif/seeded/RESULTS.md'
L=open(p).read().split('\n')
head=[l for l in L if not l.startswith('| C')]
rows=sorted(set(l for l in L if l.startswith('| C')))
head=[l for l in head if l.strip()!='' or True]
# header lines first (title, blank, table header, separator), then rows
hdr=[l for l in head if l.startswith('#') or l.startswith('| change') or l.startswith('|---')]
open(p,'w').write(hdr[0]+'\n\n'+'\n'.join(hdr[1:])+'\n'+'\n'.join(rows)+'\n')
PY
