#!/bin/bash
# Maintenance tool: applies every seeded change (seeded/*/patch.diff) to a scratch copy of /repo, runs the quick check of its
# property (plus extra checks given in seeded/<name>/checks.txt) and writes seeded/RESULTS.md. Not part of any registered check.
cd /verif
OUT=seeded/RESULTS.md
echo "# Seeded property-breaking changes vs. the checks ($(date -u +%F))" > $OUT
echo >> $OUT
echo "| change | property | check | exit | first failing obligations |" >> $OUT
echo "|---|---|---|---|---|" >> $OUT
for d in seeded/*/; do
  name=$(basename $d)
  [ -f $d/patch.diff ] || continue
  prop=$(python3 -c "import json;print(json.load(open('$d/meta.json'))['property'])")
  checks="$prop"
  [ -f $d/checks.txt ] && checks="$checks $(cat $d/checks.txt)"
  for c in $checks; do
    [ -f props/$c.json ] || { echo "| $name | $prop | $c | - | no check for this property |" >> $OUT; continue; }
    line=$(tools/run_seeded.sh $name $c 2>&1 | tail -1)
    ex=$(echo "$line" | sed -n 's/.*exit=\([0-9]*\).*/\1/p')
    obs=$(echo "$line" | sed 's/.*violations: //' | cut -c1-300)
    echo "| $name | $prop | $c | $ex | $obs |" >> $OUT
    echo "$name $c exit=$ex"
  done
done
