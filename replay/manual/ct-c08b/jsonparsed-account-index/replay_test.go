package main

// C08 replay (ct-c08b/jsonparsed-account-index): encoding=jsonParsed on a transaction one of whose instructions references
// an account index beyond the message's account keys.
//
// compiledInstructionsToJsonParsed checks the PROGRAM index (tx.ResolveProgramIDIndex returns an error), but when the
// instruction is not parsed by the Rust library it lists the accounts with `tx.Message.AccountKeys[v].String()` for every
// v of inst.Accounts, unchecked. Account indexes are bytes of the archived transaction (C12). The same happens for a v0
// transaction whose lookups were not resolved because its metadata is not in protobuf format: indexes of looked-up accounts
// are then beyond AccountKeys.
//
//   cd /repo && go test -vet=off -count=1 -overlay /verif/replay/manual/ct-c08b/jsonparsed-account-index/overlay.json -run 'TestReplayC08bJsonParsedAccountIndex' -v .

import (
	"strings"
	"testing"
)

func TestReplayC08bJsonParsedAccountIndex(t *testing.T) {
	okTx := c08bPlainTx(0)
	badTx := c08bPlainTx(1)
	badTx.Message.Instructions[0].Accounts = []uint16{0, 200} // 3 account keys
	fx := c08bBuild(t, []c08bBlock{
		{slot: 999, parent: 0, txs: []c08bTx{{raw: c08bTxBytes(t, okTx), meta: c08bMeta(t, c08bPlainMeta())}}},
		{slot: 1000, parent: 999, txs: []c08bTx{{raw: c08bTxBytes(t, badTx), meta: c08bMeta(t, c08bPlainMeta())}}},
	})
	a, b := fx.jsonParsedBoth(0, 999)
	for _, o := range []c08bOutcome{a, b} {
		if o.panicked || o.rpcErr != nil || !strings.Contains(o.body, `"result"`) {
			t.Fatalf("fixture: well-formed transaction not served: %v", o)
		}
	}
	a, b = fx.jsonParsedBoth(1, 1000)
	for i, o := range []c08bOutcome{a, b} {
		name := []string{"getTransaction", "getBlock"}[i]
		if o.panicked {
			t.Errorf("REPLAY-CONFIRMED C08/jsonparsed-account-index (JSON-RPC %s, encoding=jsonParsed; instruction account index 200 of 3 keys): handler panicked: %s\n  at %s", name, o.panicMsg, o.site())
			continue
		}
		if o.rpcErr == nil && !strings.Contains(o.body, `"result"`) {
			t.Errorf("%s: no response and no error: %v", name, o)
		}
		t.Logf("%s answered without crashing: %v", name, o)
	}
}
