package main

// tryReplay turns a solver model into a concrete call of the real function (see replay_gen.go).
func tryReplay(eng *Engine, res *UnitResult, o *Obligation) (bool, string) {
	return replayObligation(eng, res, o)
}
