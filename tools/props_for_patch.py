#!/usr/bin/env python3
"""props_for_patch.py <patch.diff>: the property ids whose checks have a unit in a package touched by the patch."""
import sys, json, glob, os, re
dirs = set()
for l in open(sys.argv[1]):
    m = re.match(r'^\+\+\+ b/(.*)$', l)
    if m:
        dirs.add(os.path.dirname(m.group(1)) or '.')
out = []
for f in sorted(glob.glob('/verif/props/C*.json')):
    d = json.load(open(f))
    if any(u['pkg'] in dirs for u in d['units']):
        out.append(d['id'] if 'id' in d else os.path.basename(f)[:-5])
print(' '.join(out))
