package main

import (
	"context"
	"encoding/json"
	"fmt"
	"os"
	"os/exec"
	"path/filepath"
	"strings"
	"time"
)

type scenario struct {
	Match  string `json:"match"`
	PkgDir string `json:"pkgdir"`
	File   string `json:"file"`
	Run    string `json:"run"`
	Marker string `json:"marker"`
}

// tryReplay: a purpose-written scenario registered for the obligation, else the generic model replay.
func tryReplay(eng *Engine, res *UnitResult, o *Obligation) (bool, string) {
	var scs []scenario
	if data, err := os.ReadFile(filepath.Join(eng.verifDir, "replay", "scenarios", "index.json")); err == nil {
		json.Unmarshal(data, &scs)
	}
	for _, sc := range scs {
		if strings.Contains(o.Name, sc.Match) {
			return runScenario(eng, sc)
		}
	}
	return replayObligation(eng, res, o)
}

func runScenario(eng *Engine, sc scenario) (bool, string) {
	src := filepath.Join(eng.verifDir, "replay", "scenarios", sc.File)
	pkgDir := filepath.Join(repoDir, sc.PkgDir)
	target := filepath.Join(pkgDir, "zz_verif_scenario_test.go")
	dir := filepath.Join(eng.verifDir, "out", replayTmpName())
	os.MkdirAll(dir, 0o755)
	ov, _ := json.Marshal(map[string]any{"Replace": map[string]string{target: src}})
	ovFile := filepath.Join(dir, "scenario_"+sanitizeFile(sc.Run)+".overlay.json")
	os.WriteFile(ovFile, ov, 0o644)
	ctx, cancel := context.WithTimeout(context.Background(), 600*time.Second)
	defer cancel()
	cmd := exec.CommandContext(ctx, "bash", "-c", fmt.Sprintf("cd %q && go test -overlay %q -vet=off -count=1 -timeout 300s -v -run '^%s$' .", pkgDir, ovFile, sc.Run))
	cmd.Env = append(os.Environ(), "GOFLAGS=-mod=readonly", "GOPROXY=off", "GOSUMDB=off", "GOTOOLCHAIN=local")
	out, _ := cmd.CombinedOutput()
	text := string(out)
	report := fmt.Sprintf("scenario %s (%s)\noutput:\n%s", sc.File, sc.Run, firstLines(text, 30))
	if strings.Contains(text, sc.Marker) {
		return true, "registered replay scenario reproduces the failure on the real code\n" + report
	}
	return false, "registered replay scenario did not reproduce the failure\n" + report
}
