package main

import (
	"fmt"
	"go/token"
	"go/types"
	"sort"
	"strings"
)

// State is the symbolic store on one path.
type State struct {
	vars    map[*types.Var]Term
	heaps   map[string]string // heap name -> current SMT constant
	pc      []string          // path condition + assumptions
	alloc   string
	ghost   map[string]string // ghost scalar state (e.g. lock held)
	tainted map[string]bool
	spare   []spareRegion // regions written by in-place append (spare capacity), exempt from the frame
	hvgen   int           // > 0: every heap was havoced on this path (generation number); heaps first named later are fresh too
	unk     bool          // an everything-havoc caused by a callee with unknown effects happened on this path
}

type spareRegion struct{ heap, ref, lo string }

func (s *State) clone() *State {
	n := &State{vars: make(map[*types.Var]Term, len(s.vars)), heaps: make(map[string]string, len(s.heaps)),
		pc: append([]string(nil), s.pc...), alloc: s.alloc, ghost: map[string]string{}, tainted: map[string]bool{}, spare: append([]spareRegion(nil), s.spare...), hvgen: s.hvgen, unk: s.unk}
	for k, v := range s.vars {
		n.vars[k] = v
	}
	for k, v := range s.heaps {
		n.heaps[k] = v
	}
	for k, v := range s.ghost {
		n.ghost[k] = v
	}
	for k, v := range s.tainted {
		n.tainted[k] = v
	}
	return n
}

func (s *State) assume(f string) {
	if f == "true" || f == "" {
		return
	}
	s.pc = append(s.pc, f)
}

// Obligation is one named proof obligation = one SMT query.
type Obligation struct {
	Name    string // <pkg>.<Func>/<kind>[...]
	Group   string // post | pre | inv | safety | frame | overflow | lemma | decreases | lock | vacuity
	Func    string
	Kind    string
	Pos     token.Position
	Detail  string // expression / contract text
	Query   string // full SMT-LIB text
	Result  string // unsat | sat | unknown | timeout | error
	Solver  string
	Seconds float64
	Total   float64 // solver wall time over every attempt
	Tries   int
	Model   string
	Expect  string            // "unsat" normally; "sat" for canaries / covers
	Vars    map[string]string // param name -> SMT symbol (for replay)
	Precise bool
}

// merge joins states that all descend from base (whose pc is a prefix of each).
func (u *Unit) merge(base *State, states []*State) *State {
	var live []*State
	for _, s := range states {
		if s != nil {
			live = append(live, s)
		}
	}
	if len(live) == 0 {
		return nil
	}
	if len(live) == 1 {
		return live[0]
	}
	n := len(base.pc)
	out := base.clone()
	guards := make([]string, len(live))
	for i, s := range live {
		delta := and(s.pc[n:]...)
		g := u.c.fresh("g", "Bool")
		// (=> g delta) suffices (one of the guards is asserted to hold) and keeps quantified facts of the branch in
		// positive polarity, which the solvers handle far better than an equivalence
		out.assume(implies(g, delta))
		guards[i] = g
	}
	out.assume(or(guards...))
	// variables
	seen := map[*types.Var]bool{}
	var keys []*types.Var
	for _, s := range live {
		for v := range s.vars {
			if !seen[v] {
				seen[v] = true
				keys = append(keys, v)
			}
		}
	}
	sort.Slice(keys, func(i, j int) bool {
		if keys[i].Pos() != keys[j].Pos() {
			return keys[i].Pos() < keys[j].Pos()
		}
		return keys[i].Name() < keys[j].Name()
	})
	for _, v := range keys {
		first, ok := live[0].vars[v]
		same := ok
		inAll := ok
		for _, s := range live[1:] {
			t, ok2 := s.vars[v]
			if !ok2 {
				inAll = false
				same = false
				break
			}
			if t.S != first.S {
				same = false
			}
		}
		if !inAll {
			delete(out.vars, v) // declared in a branch only: out of scope afterwards
			continue
		}
		if same {
			out.vars[v] = first
			continue
		}
		sortS := u.varSort(v, first)
		m := u.c.fresh(v.Name(), sortS)
		for i, s := range live {
			out.assume(implies(guards[i], eq(m, s.vars[v].S)))
		}
		nt := first
		nt.S = m
		nt.K = nil
		out.vars[v] = nt
	}
	// heaps
	hs := map[string]bool{}
	for _, s := range live {
		for h := range s.heaps {
			hs[h] = true
		}
	}
	for _, h := range sortedKeys(hs) {
		first := u.heapCur(live[0], h)
		same := true
		for _, s := range live[1:] {
			if u.heapCur(s, h) != first {
				same = false
			}
		}
		if same {
			out.heaps[h] = first
			continue
		}
		m := u.c.fresh(h, u.c.heapNames[h])
		for i, s := range live {
			out.assume(implies(guards[i], eq(m, u.heapCur(s, h))))
		}
		out.heaps[h] = m
	}
	// everything-havoc generation
	{
		for _, s := range live {
			if s.unk {
				out.unk = true
			}
		}
		out.hvgen = live[0].hvgen
		for _, s := range live[1:] {
			if s.hvgen != out.hvgen {
				u.hvCounter++
				out.hvgen = u.hvCounter
				break
			}
		}
	}
	// alloc
	{
		same := true
		for _, s := range live[1:] {
			if s.alloc != live[0].alloc {
				same = false
			}
		}
		if same {
			out.alloc = live[0].alloc
		} else {
			m := u.c.fresh("alloc", "Int")
			for i, s := range live {
				out.assume(implies(guards[i], eq(m, s.alloc)))
			}
			out.alloc = m
		}
	}
	// ghost
	gs := map[string]bool{}
	for _, s := range live {
		for g := range s.ghost {
			gs[g] = true
		}
	}
	for _, g := range sortedKeys(gs) {
		first := live[0].ghost[g]
		same := true
		for _, s := range live[1:] {
			if s.ghost[g] != first {
				same = false
			}
		}
		if same {
			out.ghost[g] = first
			continue
		}
		m := u.c.fresh("ghost_"+g, "Int")
		for i, s := range live {
			v := s.ghost[g]
			if v == "" {
				v = "0"
			}
			out.assume(implies(guards[i], eq(m, v)))
		}
		out.ghost[g] = m
	}
	for _, s := range live {
		for h := range s.tainted {
			out.tainted[h] = true
		}
		for _, sp := range s.spare[min(len(base.spare), len(s.spare)):] {
			out.spare = append(out.spare, sp)
		}
	}
	return out
}

func (u *Unit) varSort(v *types.Var, t Term) string {
	if u.boxed[v] {
		return "Int"
	}
	if t.Spec != "" {
		return t.Spec
	}
	return u.c.sortOf(v.Type())
}

// heapCur returns the current constant of heap h in st, declaring the initial version on demand.
func (u *Unit) heapCur(st *State, h string) string {
	if c, ok := st.heaps[h]; ok {
		return c
	}
	if st.hvgen > 0 {
		// the heap is named for the first time after an everything-havoc on this path: it is NOT the entry version
		name := fmt.Sprintf("%s@hv%d", h, st.hvgen)
		u.c.declareFun(name, "() "+u.c.heapNames[h])
		st.heaps[h] = name
		if f := u.finalFacts(h, h+"@0", name, "alloc@0"); f != "" {
			// `final` fields survive every havoc: relate them to the entry version for cells that existed at entry
			u.c.declareFun(h+"@0", "() "+u.c.heapNames[h])
			u.c.declareRaw("final_"+name, "(assert "+f+")")
		}
		if !st.unk && u.entry != nil && st != u.entry {
			// no callee with unknown effects ran on this path, so the generation comes from loop-head havocs (possibly
			// merged): the loops' implicit frame invariant holds for this heap as well (a heap
			// the body never names is not changed by it; one it names is checked at the back edge)
			// (a fact about the symbol itself, over entry-state terms only: asserted once, globally, so that it is not
			// lost when the heap is first named inside a branch or during a merge)
			for i, g := range u.frameGoals(st, map[string]bool{h: true}) {
				u.c.declareRaw(fmt.Sprintf("lazyframe_%s_%d", name, i), "(assert "+g.goal+")")
			}
		}
		return name
	}
	// initial version: shared by every state of the unit
	name := h + "@0"
	u.c.declareFun(name, "() "+u.c.heapNames[h])
	return name
}

func (u *Unit) emit(st *State, group, kind, detail string, pos token.Pos, goal string) *Obligation {
	if group == "safety" && u.ct != nil && len(u.ct.Panics) > 0 && u.entry != nil && !strings.HasPrefix(kind, "panic[") {
		// an implicit panic is allowed where the function is declared to panic
		env := &SpecEnv{u: u, st: st, old: u.entry, names: map[string]Term{}, cs: u.cs, pkg: u.pkg.Types, own: true, scopePos: u.bodyPos}
		var alts []string
		for _, p := range u.ct.Panics {
			alts = append(alts, env.evalBool(p.Expr))
		}
		goal = or(goal, or(alts...))
	}
	return u.emitExpect(st, group, kind, detail, pos, goal, "unsat")
}

func (u *Unit) emitExpect(st *State, group, kind, detail string, pos token.Pos, goal string, expect string) *Obligation {
	if goal == "true" && expect == "unsat" {
		// trivially true: still count it, but no solver call needed
	}
	p := u.fset.Position(pos)
	name := fmt.Sprintf("%s.%s/%s", u.pkgName, u.key, kind)
	// disambiguate duplicates
	u.nameCount[name]++
	if u.nameCount[name] > 1 {
		name = fmt.Sprintf("%s~%d", name, u.nameCount[name])
	}
	if u.litGroup && group != "canary" {
		group = "lit:" + group
	}
	ob := &Obligation{Name: name, Group: group, Func: u.pkgName + "." + u.key, Kind: kind, Pos: p, Detail: detail, Expect: expect, Precise: true}
	var b strings.Builder
	fmt.Fprintf(&b, "; obligation %s\n; %s:%d  %s\n", name, shortPath(p.Filename), p.Line, oneLine(detail))
	b.WriteString("%%PRELUDE%%\n")
	for _, a := range st.pc {
		b.WriteString("(assert ")
		b.WriteString(a)
		b.WriteString(")\n")
	}
	b.WriteString("(assert ")
	b.WriteString(not(goal))
	b.WriteString(")\n(check-sat)\n")
	ob.Query = b.String()
	ob.Vars = u.paramSyms
	u.obls = append(u.obls, ob)
	return ob
}

func oneLine(s string) string {
	s = strings.ReplaceAll(s, "\n", " ")
	if len(s) > 200 {
		s = s[:200] + "..."
	}
	return s
}

func shortPath(p string) string {
	p = strings.TrimPrefix(p, repoDir+"/")
	return p
}
