package main

// Baseline bindings: robustness of the comment-file contracts against harmless edits of the code.
//
// The contracts live in separate files and name Go locals (loop invariants, call-site conditions) and call sites by
// ordinal (`fncall f#k`). A maintainer who renames a local or adds a log line does not touch the contract file, so the
// contract would become unresolvable -- an alarm on code where the property holds. `vcgo bindings` records, on the tree
// the contracts were written for, for every function under contract: the ordered list of its local declarations
// (name, type) and, for every callee text that has site-specific clauses, the full source text of each call in source
// order (baseline/bindings.json, committed). At check time the table is consulted ONLY when a contract identifier does not
// resolve / when the list of call texts differs from the recorded one; then the recorded declaration (call) is aligned
// with the current ones (longest common subsequence on (name,type) resp. call text, remaining gaps matched in order by
// type resp. position) and the contract is read with the aligned variable (call site). A rebinding never removes an
// obligation: the clause is still proved, about the aligned variable; every rebinding is reported in the evidence notes.

import (
	"encoding/json"
	"fmt"
	"go/ast"
	"go/token"
	"go/types"
	"os"
	"path/filepath"
	"regexp"
	"sort"
	"strings"

	"golang.org/x/tools/go/packages"
)

type LocalDecl struct {
	Name string `json:"n"`
	Type string `json:"t"`
}

type FuncBindings struct {
	Locals []LocalDecl         `json:"locals"`
	Calls  map[string][]string `json:"calls,omitempty"` // callee text -> full call texts in source order
	// functions with loop clauses: header text of every loop statement in source order, and for every loop ordinal of
	// the contract (execution order) the source index of its statement (-1: loop of an inlined callee)
	Recv     string   `json:"recv,omitempty"` // names of receiver, parameters, results in the recorded signature
	Params   []string `json:"params,omitempty"`
	Results  []string `json:"results,omitempty"`
	Funcs    []string `json:"funcs,omitempty"` // entry "funcs:<pkg>": every function of the package when the contracts were written
	Loops    []string `json:"loops,omitempty"`
	LoopExec []int    `json:"loop_exec,omitempty"`
	// functions with `lit K ensures` clauses: the type text of every escaping literal in the order of the `$lit<K>` ordinals
	Lits []string `json:"lits,omitempty"`
}

type Bindings map[string]*FuncBindings

func (eng *Engine) bindingsPath() string {
	return filepath.Join(eng.verifDir, "baseline", "bindings.json")
}

func (eng *Engine) loadBindings() Bindings {
	if eng.bindings != nil {
		return eng.bindings
	}
	eng.bindings = Bindings{}
	if data, err := os.ReadFile(eng.bindingsPath()); err == nil {
		json.Unmarshal(data, &eng.bindings)
	}
	return eng.bindings
}

// localsOf lists the variables declared in a function (receiver, parameters, results, locals, parameters of literals)
// in source order.
func localsOf(info *types.Info, fd *ast.FuncDecl) []*types.Var {
	var out []*types.Var
	ast.Inspect(fd, func(n ast.Node) bool {
		if id, ok := n.(*ast.Ident); ok {
			if v, ok := info.Defs[id].(*types.Var); ok && !v.IsField() {
				out = append(out, v)
			}
		}
		return true
	})
	// implicit objects of type switches (`switch x := y.(type)`) are not in Defs; they are rarely named by contracts
	sort.SliceStable(out, func(i, j int) bool { return out[i].Pos() < out[j].Pos() })
	return out
}

func typeStr(t types.Type) string {
	return types.TypeString(t, func(p *types.Package) string { return p.Name() })
}

func (u *Unit) callTexts(key string) ([]string, []*ast.CallExpr) {
	var texts []string
	var calls []*ast.CallExpr
	if u.decl == nil || u.decl.Body == nil {
		return nil, nil
	}
	ast.Inspect(u.decl.Body, func(n ast.Node) bool {
		if c, ok := n.(*ast.CallExpr); ok {
			if strings.Join(strings.Fields(u.exprText(c.Fun)), "") == key {
				texts = append(texts, strings.Join(strings.Fields(u.exprText(c)), " "))
				calls = append(calls, c)
			}
		}
		return true
	})
	return texts, calls
}

// siteKeys: the callee texts of a contract that carry site-specific clauses (`fncall <expr>#k`).
func siteKeys(ct *FuncContract) []string {
	seen := map[string]bool{}
	if ct == nil {
		return nil
	}
	for k := range ct.FnCalls {
		if i := strings.LastIndex(k, "#"); i > 0 {
			seen[k[:i]] = true
		}
	}
	return sortedKeys(seen)
}

// align maps indices of a to indices of b: longest common subsequence under eq, then the unmatched stretches between
// two matched pairs are matched in order under weak (nil weak: only when the two stretches have the same length).
func align(na, nb int, eq func(i, j int) bool, weak func(i, j int) bool) map[int]int {
	L := make([][]int, na+1)
	for i := range L {
		L[i] = make([]int, nb+1)
	}
	for i := na - 1; i >= 0; i-- {
		for j := nb - 1; j >= 0; j-- {
			if eq(i, j) {
				L[i][j] = L[i+1][j+1] + 1
			} else if L[i+1][j] >= L[i][j+1] {
				L[i][j] = L[i+1][j]
			} else {
				L[i][j] = L[i][j+1]
			}
		}
	}
	m := map[int]int{}
	gap := func(a0, a1, b0, b1 int) { // [a0,a1) and [b0,b1) unmatched
		if weak == nil {
			if a1-a0 == b1-b0 {
				for k := 0; k < a1-a0; k++ {
					m[a0+k] = b0 + k
				}
			}
			return
		}
		j := b0
		for i := a0; i < a1; i++ {
			for jj := j; jj < b1; jj++ {
				if weak(i, jj) {
					m[i] = jj
					j = jj + 1
					break
				}
			}
		}
	}
	i, j, pa, pb := 0, 0, 0, 0
	for i < na && j < nb {
		if eq(i, j) && L[i][j] == L[i+1][j+1]+1 {
			gap(pa, i, pb, j)
			m[i] = j
			i++
			j++
			pa, pb = i, j
		} else if L[i+1][j] >= L[i][j+1] {
			i++
		} else {
			j++
		}
	}
	gap(pa, na, pb, nb)
	return m
}

// sigBindings: the recorded names of a repository function's receiver / parameters / results.
func (eng *Engine) sigBindings(f *types.Func) *FuncBindings {
	if f == nil || f.Pkg() == nil {
		return nil
	}
	p := eng.pkgs[f.Pkg().Path()]
	if p == nil {
		return nil
	}
	return eng.loadBindings()[eng.shortName(p)+"."+calleeKey(f.Origin())]
}

// aliasSigNames lets a callee contract written with the recorded parameter names be read after a parameter was renamed:
// the recorded name of position i denotes the same value as the current name of position i (never overriding a
// current name).
func (eng *Engine) aliasSigNames(names map[string]Term, f *types.Func, sig *types.Signature, which string) {
	fb := eng.sigBindings(f)
	if fb == nil {
		return
	}
	alias := func(old, cur string) {
		if old == "" || old == "_" || cur == "" || cur == "_" || old == cur {
			return
		}
		if _, taken := names[old]; taken {
			return
		}
		if t, ok := names[cur]; ok {
			names[old] = t
		}
	}
	switch which {
	case "params":
		if sig.Recv() != nil {
			alias(fb.Recv, sig.Recv().Name())
		}
		for i := 0; i < sig.Params().Len() && i < len(fb.Params); i++ {
			alias(fb.Params[i], sig.Params().At(i).Name())
		}
	case "results":
		for i := 0; i < sig.Results().Len() && i < len(fb.Results); i++ {
			alias(fb.Results[i], sig.Results().At(i).Name())
		}
	}
}

// rebindVar: the current variable that corresponds to the recorded local `name` which no longer resolves at pos.
func (u *Unit) rebindVar(name string, pos token.Pos) *types.Var {
	if u.decl == nil {
		return nil
	}
	fb := u.eng.loadBindings()[u.pkgName+"."+u.key]
	if fb == nil {
		return nil
	}
	if u.sig != nil {
		// renamed receiver / parameter / named result: by position in the signature
		pick := func(old string, v *types.Var) *types.Var {
			if old == name && v != nil && v.Name() != name && v.Name() != "" && v.Name() != "_" {
				return v
			}
			return nil
		}
		var hit *types.Var
		if u.sig.Recv() != nil {
			hit = pick(fb.Recv, u.sig.Recv())
		}
		for i := 0; hit == nil && i < u.sig.Params().Len() && i < len(fb.Params); i++ {
			hit = pick(fb.Params[i], u.sig.Params().At(i))
		}
		for i := 0; hit == nil && i < u.sig.Results().Len() && i < len(fb.Results); i++ {
			hit = pick(fb.Results[i], u.sig.Results().At(i))
		}
		if hit != nil {
			u.noteRebind(name, hit.Name())
			return hit
		}
	}
	if u.localAlign == nil {
		u.curLocals = localsOf(u.info, u.decl)
		cur := u.curLocals
		u.localAlign = align(len(fb.Locals), len(cur),
			func(i, j int) bool {
				return fb.Locals[i].Name == cur[j].Name() && fb.Locals[i].Type == typeStr(cur[j].Type())
			},
			func(i, j int) bool { return fb.Locals[i].Type == typeStr(cur[j].Type()) })
	}
	var found *types.Var
	n := 0
	for i, d := range fb.Locals {
		if d.Name != name {
			continue
		}
		j, ok := u.localAlign[i]
		if !ok {
			continue
		}
		v := u.curLocals[j]
		if v.Name() == name {
			continue
		}
		if pos.IsValid() {
			if sc := v.Parent(); sc == nil || !sc.Contains(pos) || v.Pos() > pos {
				continue
			}
		}
		if found != v {
			found = v
			n++
		}
	}
	if n != 1 {
		return nil
	}
	u.noteRebind(name, found.Name())
	return found
}

func (u *Unit) noteRebind(name, now string) {
	msg := fmt.Sprintf("contract identifier %s read as the renamed variable %s (baseline bindings)", name, now)
	if !u.rebindNoted[msg] {
		if u.rebindNoted == nil {
			u.rebindNoted = map[string]bool{}
		}
		u.rebindNoted[msg] = true
		u.c.note("%s", msg)
	}
}

// baseSite: the recorded ordinal of the call site that is now the site-th call with callee text key (same ordinal when
// nothing is recorded or the call texts are unchanged); -1 when the call has no recorded counterpart (a new call).
func (u *Unit) baseSite(key string, site int) int {
	fb := u.eng.loadBindings()[u.pkgName+"."+u.key]
	if fb == nil || fb.Calls == nil {
		return site
	}
	base, ok := fb.Calls[key]
	if !ok {
		return site
	}
	if u.siteAlign == nil {
		u.siteAlign = map[string]map[int]int{}
	}
	inv, ok := u.siteAlign[key]
	if !ok {
		cur, _ := u.callTexts(key)
		same := len(cur) == len(base)
		for i := 0; same && i < len(cur); i++ {
			same = cur[i] == base[i]
		}
		inv = map[int]int{}
		if same || len(cur) == len(base) {
			// same number of calls: positions are kept (a reworded message or renamed argument does not move a site)
			for i := range cur {
				inv[i] = i
			}
		} else {
			m := align(len(base), len(cur), func(i, j int) bool { return base[i] == cur[j] }, nil)
			for b, c := range m {
				inv[c] = b
			}
			for c := range cur {
				if _, ok := inv[c]; !ok {
					inv[c] = -1
				}
			}
			u.c.note("call sites of %s moved (%d recorded, %d now): site-specific clauses follow the recorded calls (baseline bindings)", key, len(base), len(cur))
		}
		u.siteAlign[key] = inv
	}
	if b, ok := inv[site]; ok {
		return b
	}
	return site
}

func (u *Unit) loopHeader(s ast.Stmt) string {
	switch s := s.(type) {
	case *ast.ForStmt:
		part := func(n ast.Node) string {
			if n == nil {
				return ""
			}
			return strings.Join(strings.Fields(u.exprText(n)), " ")
		}
		return "for " + part(s.Init) + "; " + part(s.Cond) + "; " + part(s.Post)
	case *ast.RangeStmt:
		part := func(n ast.Expr) string {
			if n == nil {
				return "_"
			}
			return strings.Join(strings.Fields(u.exprText(n)), " ")
		}
		return "for " + part(s.Key) + ", " + part(s.Value) + " range " + part(s.X)
	}
	return "?"
}

func loopStmtsOf(fd *ast.FuncDecl) []ast.Stmt {
	var out []ast.Stmt
	if fd == nil || fd.Body == nil {
		return nil
	}
	ast.Inspect(fd.Body, func(n ast.Node) bool {
		switch s := n.(type) {
		case *ast.ForStmt:
			out = append(out, s)
		case *ast.RangeStmt:
			out = append(out, s)
		}
		return true
	})
	return out
}

// baseLoop: the loop ordinal of the contract for the loop statement executed as the n-th loop. Identity unless the
// function's loop statements differ in number from the recorded ones; then the recorded statements are aligned with the
// current ones by header text and the ordinal of the recorded counterpart is used (1000+n: a loop the contract does
// not know, no clauses apply).
func (u *Unit) baseLoop(stmt ast.Stmt, n int) int {
	if u.decl == nil {
		return n
	}
	if u.loopStatic == nil {
		u.loopStatic = loopStmtsOf(u.decl)
		u.loopSeenStmt = map[ast.Stmt]int{}
	}
	c := -1
	for i, s := range u.loopStatic {
		if s == stmt {
			c = i
		}
	}
	u.loopExec = append(u.loopExec, c)
	occ := u.loopSeenStmt[stmt]
	u.loopSeenStmt[stmt]++
	fb := u.eng.loadBindings()[u.pkgName+"."+u.key]
	if fb == nil || fb.Loops == nil {
		return n
	}
	for _, x := range fb.LoopExec {
		if x < 0 {
			return n // loops of inlined callees take part in the recorded numbering: not realigned
		}
	}
	ensureAlign := func() {
		if u.loopAlignDone {
			return
		}
		u.loopAlignDone = true
		cur := make([]string, len(u.loopStatic))
		for i, s := range u.loopStatic {
			cur[i] = u.loopHeader(s)
		}
		m := align(len(fb.Loops), len(cur), func(i, j int) bool { return fb.Loops[i] == cur[j] }, nil)
		u.loopAlign = map[int]int{}
		u.loopUnmatched = map[int]bool{}
		for i := range cur {
			u.loopAlign[i] = -1
		}
		for i := range fb.Loops {
			u.loopUnmatched[i] = true
		}
		for bb, cc := range m {
			u.loopAlign[cc] = bb
			delete(u.loopUnmatched, bb)
		}
		u.c.note("loop statements changed (%d recorded, %d now): loop clauses follow the recorded loops by header text (baseline bindings)", len(fb.Loops), len(cur))
	}
	b := c
	if c < 0 {
		// loop of a callee executed inline. If it is a loop that was MOVED out of this function into a new helper (a
		// recorded loop with the same header that has no counterpart left in the function), its clauses follow it;
		// they resolve only if the helper kept the names the clauses use.
		if len(fb.Loops) == len(u.loopStatic) {
			return 1000 + n
		}
		ensureAlign()
		hdr := u.loopHeader(stmt)
		b = -1
		for i := range fb.Loops {
			if u.loopUnmatched[i] && fb.Loops[i] == hdr {
				if b >= 0 {
					return 1000 + n // ambiguous
				}
				b = i
			}
		}
		if b < 0 {
			// no recorded loop with this header: the k-th such loop of the new helpers stands for the k-th recorded
			// loop that has no counterpart left, if it is the same kind of loop (the moved loop was edited on the way)
			var rest []int
			for i := range fb.Loops {
				if u.loopUnmatched[i] {
					same := false
					for j := range fb.Loops {
						if j != i && u.loopUnmatched[j] && fb.Loops[j] == fb.Loops[i] {
							same = true
						}
					}
					if !same {
						rest = append(rest, i)
					}
				}
			}
			sort.Ints(rest)
			k := u.loopForeignSeen
			if occ == 0 {
				u.loopForeignSeen++
			}
			isRange := func(h string) bool { return strings.Contains(h, " range ") }
			if k >= len(rest) || isRange(fb.Loops[rest[k]]) != isRange(hdr) {
				return 1000 + n
			}
			b = rest[k]
		}
		u.c.note("loop `%s` now lives in a helper executed inline: the clauses recorded for `%s` are applied there (baseline bindings)", hdr, fb.Loops[b])
	} else if len(fb.Loops) != len(u.loopStatic) {
		ensureAlign()
		b = u.loopAlign[c]
		if b < 0 {
			return 1000 + n
		}
	}
	k := 0
	for ord, x := range fb.LoopExec {
		if x == b {
			if k == occ {
				return ord
			}
			k++
		}
	}
	return 1000 + n
}

// baseLit: the recorded ordinal of the escaping literal that is now the k-th one (same ordinal unless the number of
// escaping literals changed; then the literals are aligned by their type text); -1: a literal the contract does not know.
func (u *Unit) baseLit(k int) int {
	fb := u.eng.loadBindings()[u.pkgName+"."+strings.SplitN(u.key, "$lit", 2)[0]]
	if fb == nil || fb.Lits == nil || len(fb.Lits) == len(u.funcLits) {
		return k
	}
	cur := make([]string, len(u.funcLits))
	for i, fl := range u.funcLits {
		cur[i] = strings.Join(strings.Fields(u.exprText(fl.Type)), " ")
	}
	m := align(len(fb.Lits), len(cur), func(i, j int) bool { return fb.Lits[i] == cur[j] }, nil)
	for b, c := range m {
		if c == k {
			return b
		}
	}
	return -1
}

// isNewFunc: a function of the unit's package that did not exist when the contracts were written (it has no contract
// because nobody could have written one): its calls are executed inline, so that moving lines into a helper does not
// lose what was proved about them.
func (eng *Engine) isNewFunc(pkgShort string, key string) bool {
	fb := eng.loadBindings()["funcs:"+pkgShort]
	if fb == nil {
		return false
	}
	for _, f := range fb.Funcs {
		if f == key {
			return false
		}
	}
	return true
}

// cmdBindings writes baseline/bindings.json for the current tree (maintenance command, run when contracts change).
func cmdBindings(args []string) int {
	vd := verifDir()
	eng := newEngine(vd)
	if err := eng.loadTheories(); err != nil {
		fmt.Fprintln(os.Stderr, "vcgo:", err)
		return 2
	}
	files, _ := filepath.Glob(filepath.Join(vd, "props", "C*.json"))
	pkgSet := map[string]bool{}
	for _, f := range files {
		data, err := os.ReadFile(f)
		if err != nil {
			continue
		}
		var spec PropSpec
		if json.Unmarshal(data, &spec) != nil {
			continue
		}
		for _, pu := range spec.Units {
			pkgSet[pu.Pkg] = true
		}
	}
	if err := eng.load(sortedKeys(pkgSet)...); err != nil {
		fmt.Fprintln(os.Stderr, "vcgo: load:", err)
		return 2
	}
	out := Bindings{}
	var pkgs []*packages.Package
	for _, p := range eng.pkgs {
		pkgs = append(pkgs, p)
	}
	sort.Slice(pkgs, func(i, j int) bool { return pkgs[i].PkgPath < pkgs[j].PkgPath })
	nf := 0
	for _, p := range pkgs {
		cs := eng.contractsOf(p.PkgPath)
		if cs == nil {
			continue
		}
		out["funcs:"+eng.shortName(p)] = &FuncBindings{Funcs: eng.allFuncKeys(p)}
		for _, key := range sortedKeys(cs.Funcs) {
			fd, obj := eng.findFunc(p, key)
			if fd == nil || obj == nil || fd.Body == nil {
				continue
			}
			fb := &FuncBindings{}
			if sg, ok := obj.Type().(*types.Signature); ok {
				if sg.Recv() != nil {
					fb.Recv = sg.Recv().Name()
				}
				for i := 0; i < sg.Params().Len(); i++ {
					fb.Params = append(fb.Params, sg.Params().At(i).Name())
				}
				for i := 0; i < sg.Results().Len(); i++ {
					fb.Results = append(fb.Results, sg.Results().At(i).Name())
				}
			}
			for _, v := range localsOf(p.TypesInfo, fd) {
				fb.Locals = append(fb.Locals, LocalDecl{v.Name(), typeStr(v.Type())})
			}
			u := &Unit{eng: eng, pkg: p, info: p.TypesInfo, fset: eng.fset, decl: fd}
			for _, k := range siteKeys(cs.Funcs[key]) {
				texts, _ := u.callTexts(k)
				if fb.Calls == nil {
					fb.Calls = map[string][]string{}
				}
				fb.Calls[k] = texts
			}
			if ct := cs.Funcs[key]; ct != nil && (len(ct.Loops) > 0 || len(ct.LitEnsures) > 0) && !ct.Trusted {
				if res, err := eng.verifyFunc(p, key, false); err == nil && res.unit != nil && res.Unsupported == "" {
					if len(ct.Loops) > 0 {
						for _, s := range loopStmtsOf(fd) {
							fb.Loops = append(fb.Loops, res.unit.loopHeader(s))
						}
						fb.LoopExec = append([]int{}, res.unit.loopExec...)
					}
					if len(ct.LitEnsures) > 0 {
						for _, fl := range res.unit.funcLits {
							fb.Lits = append(fb.Lits, strings.Join(strings.Fields(res.unit.exprText(fl.Type)), " "))
						}
					}
				}
			}
			out[eng.shortName(p)+"."+key] = fb
			nf++
		}
	}
	data, _ := json.MarshalIndent(out, "", " ")
	if len(args) > 0 && args[0] == "--check" {
		have, _ := os.ReadFile(eng.bindingsPath())
		if string(have) != string(append(data, '\n')) {
			fmt.Printf("bindings: %s is STALE for this tree (re-run `vcgo bindings` on the clean tree)\n", eng.bindingsPath())
			return 1
		}
		fmt.Printf("bindings: %s is current (%d functions)\n", eng.bindingsPath(), nf)
		return 0
	}
	if err := os.WriteFile(eng.bindingsPath(), append(data, '\n'), 0o644); err != nil {
		fmt.Fprintln(os.Stderr, "vcgo:", err)
		return 2
	}
	fmt.Printf("bindings: %d functions under contract recorded in %s\n", nf, eng.bindingsPath())
	return 0
}

// ---- called(f): how many times a call `f(...)` (by callee text) was executed by this activation ----

var reCalled = regexp.MustCompile(`called\(([^()]*(?:\([^()]*\))?[^()]*)\)`)

func (u *Unit) initCounted() {
	if u.counted != nil || u.ct == nil {
		return
	}
	u.counted = map[string]int{}
	var cls []Clause
	cls = append(cls, u.ct.Requires...)
	cls = append(cls, u.ct.Ensures...)
	for _, lc := range u.ct.Loops {
		cls = append(cls, lc.Invariants...)
		cls = append(cls, lc.Steps...)
		cls = append(cls, lc.Entry...)
	}
	for _, fc := range u.ct.FnCalls {
		cls = append(cls, fc.Requires...)
		cls = append(cls, fc.Ensures...)
	}
	for _, le := range u.ct.LitEnsures {
		cls = append(cls, le...)
	}
	for _, cl := range cls {
		for _, m := range reCalled.FindAllStringSubmatch(cl.Text, -1) {
			k := strings.Join(strings.Fields(m[1]), "")
			if _, ok := u.counted[k]; !ok {
				u.counted[k] = len(u.counted) + 1
			}
		}
	}
}

// countCall bumps the counter of the call's callee text, if the contract names it.
func (u *Unit) countCall(st *State, e *ast.CallExpr) {
	if len(u.counted) == 0 || st == nil {
		return
	}
	id, ok := u.counted[strings.Join(strings.Fields(u.exprText(e.Fun)), "")]
	if !ok {
		return
	}
	h := u.ghostHeap("called")
	cur := u.heapRead(st, h)
	u.heapWrite(st, h, fmt.Sprintf("(store %s %d (+ (select %s %d) 1))", cur, id, cur, id))
}

func (u *Unit) hasCountedCall(n ast.Node) bool {
	if len(u.counted) == 0 {
		return false
	}
	found := false
	ast.Inspect(n, func(x ast.Node) bool {
		if c, ok := x.(*ast.CallExpr); ok {
			if _, ok := u.counted[strings.Join(strings.Fields(u.exprText(c.Fun)), "")]; ok {
				found = true
			}
		}
		return !found
	})
	return found
}
