package gsfa

// C10 finding F1 (replay): the gsfa pubkey-to-offset-and-size index of a gsfa directory carries its own Epoch / RootCid /
// Network, but neither gsfa.NewGsfaReader nor NewEpochFromConfig compares them with anything. A gsfa directory whose
// `pubkey-to-offset-and-size.index` was built for ANOTHER epoch / CAR passes every identity check the loader performs
// (manifest version, manifest epoch, manifest root CID) and is then used to answer getSignaturesForAddress.
//
// Run (no file of /repo is modified; the test is overlaid into package gsfa):
//   cd /repo && go test -vet=off -overlay /verif/replay/manual/c10-gsfa-offsets/overlay.json -run TestReplayC10GsfaOffsetsFromOtherEpoch -v ./gsfa/

import (
	"context"
	"fmt"
	"io"
	"os"
	"path/filepath"
	"testing"

	"github.com/gagliardetto/solana-go"
	"github.com/ipfs/go-cid"
	"github.com/rpcpool/yellowstone-faithful/indexes"
	"github.com/rpcpool/yellowstone-faithful/indexmeta"
)

func c10BuildGsfa(t *testing.T, dir string, epoch uint64, root cid.Cid, pk solana.PublicKey, offsets []uint64) {
	t.Helper()
	meta := indexmeta.Meta{}
	if err := meta.AddUint64(indexmeta.MetadataKey_Epoch, epoch); err != nil {
		t.Fatal(err)
	}
	if err := meta.AddCid(indexmeta.MetadataKey_RootCid, root); err != nil {
		t.Fatal(err)
	}
	if err := meta.AddString(indexmeta.MetadataKey_Network, string(indexes.NetworkMainnet)); err != nil {
		t.Fatal(err)
	}
	w, err := NewGsfaWriter(dir, meta, epoch, root, indexes.NetworkMainnet, t.TempDir())
	if err != nil {
		t.Fatal(err)
	}
	for i, off := range offsets {
		if err := w.Push(off, 100+uint64(i), epoch*432000+uint64(i), solana.PublicKeySlice{pk}, true, true, false); err != nil {
			t.Fatal(err)
		}
	}
	if err := w.Close(); err != nil {
		t.Fatal(err)
	}
}

func c10Copy(t *testing.T, src, dst string) {
	t.Helper()
	in, err := os.Open(src)
	if err != nil {
		t.Fatal(err)
	}
	defer in.Close()
	out, err := os.Create(dst)
	if err != nil {
		t.Fatal(err)
	}
	defer out.Close()
	if _, err := io.Copy(out, in); err != nil {
		t.Fatal(err)
	}
}

func TestReplayC10GsfaOffsetsFromOtherEpoch(t *testing.T) {
	rootA, _ := cid.Parse("bafyreifljyxj55v6jycjf2y7tdibwwwqx75eqf5mn2thip2sswyc536zqq")
	rootB, _ := cid.Parse("bafyreidlbcsg46dn5mqppioijyqb5cn6j23rkcoazl7skif74kpa3uf6bq")
	pk := solana.MustPublicKeyFromBase58("Vote111111111111111111111111111111111111111")
	base := t.TempDir()
	dirA, dirB := filepath.Join(base, "gsfa-epoch-10"), filepath.Join(base, "gsfa-epoch-11")
	other := solana.MustPublicKeyFromBase58("Stake11111111111111111111111111111111111111")
	// epoch 10 (CAR root A): only the account `other` has transactions (5 of them), pk has NONE;
	// epoch 11 (CAR root B): pk has 5 transactions
	c10BuildGsfa(t, dirA, 10, rootA, other, []uint64{71001, 72001, 73001, 74001, 75001})
	c10BuildGsfa(t, dirB, 11, rootB, pk, []uint64{71000, 72000, 73000, 74000, 75000})

	name := string(indexes.Kind_PubkeyToOffsetAndSize) + ".index"
	// the mismatching configuration: directory of epoch 10, but its offsets index is the one built for epoch 11
	c10Copy(t, filepath.Join(dirB, name), filepath.Join(dirA, name))

	r, err := NewGsfaReader(dirA)
	if err != nil {
		t.Fatalf("REPLAY-NOT-CONFIRMED: NewGsfaReader rejected the directory: %v", err)
	}
	defer r.Close()

	// exactly the identity checks NewEpochFromConfig performs on a gsfa reader (epoch.go, gsfa block), for ep.epoch = 10, lastRootCid = rootA
	const wantEpoch = uint64(10)
	if r.Version() < 2 {
		t.Fatalf("unexpected version %d", r.Version())
	}
	gotEpoch, ok := r.Meta().GetUint64(indexmeta.MetadataKey_Epoch)
	if !ok || gotEpoch != wantEpoch {
		t.Fatalf("REPLAY-NOT-CONFIRMED: manifest epoch check failed: %d %v", gotEpoch, ok)
	}
	gotRoot, ok := r.Meta().GetCid(indexmeta.MetadataKey_RootCid)
	if !ok || !rootA.Equals(gotRoot) {
		t.Fatalf("REPLAY-NOT-CONFIRMED: manifest root CID check failed: %s %v", gotRoot, ok)
	}
	om := r.offsets.Meta()
	fmt.Printf("loader checks passed for epoch %d / root %s\n", wantEpoch, rootA)
	fmt.Printf("offsets index really is:   epoch %d / root %s / kind %q\n", om.Epoch, om.RootCid, om.IndexKind)
	if om.Epoch == wantEpoch && om.RootCid.Equals(rootA) {
		t.Fatalf("REPLAY-NOT-CONFIRMED: offsets index has the expected identity")
	}
	fmt.Println("REPLAY-CONFIRMED C10/F1: gsfa directory accepted for epoch 10 with a pubkey-to-offset index built for epoch 11 / another CAR")

	// consequence: the head pointer taken from epoch 11's offsets index is followed into epoch 10's linked log:
	// pk has no transaction in epoch 10, yet the reader returns CAR locations - those of the OTHER account's transactions
	locs, err := r.Get(context.Background(), pk, 10)
	fmt.Printf("Get(pk) on the mixed directory -> %d locations, err=%v (pk has 0 transactions in epoch 10)\n", len(locs), err)
	if err == nil && len(locs) > 0 {
		fmt.Println("REPLAY-CONFIRMED C10/F1 consequence: getSignaturesForAddress(pk) is answered with transactions of another account")
	}
	for _, l := range locs {
		fmt.Printf("  offset=%d size=%d slot=%d\n", l.Offset, l.Size, l.Slot)
	}
}
