package main

// Evaluation of contract expressions (spec mode): no safety obligations, total functions.

import (
	"fmt"
	"go/ast"
	"go/constant"
	"go/token"
	"go/types"
	"math/big"
	"strconv"
	"strings"
)

type SpecEnv struct {
	u          *Unit
	st         *State // state whose heaps non-old expressions read
	old        *State // state for old(...)
	names      map[string]Term
	cs         *ContractSet
	pkg        *types.Package
	calleeSig  *types.Signature
	head       *State    // loop step clauses: the state at the start of the iteration, for athead(...)
	scopePos   token.Pos // position for resolving Go locals by name (own-function contracts)
	own        bool      // contract of the unit itself: parameters denote entry values
	inOld      bool
	bound      map[string]Term
	qn         int
	allowLemma bool
	loopInv    bool
	outOfScope bool   // a named local does not exist on this path (clause skipped at this return)
	reads      []Term // reference-typed values read from the heap while evaluating (for well-formedness facts)
}

func (e *SpecEnv) fail(format string, a ...any) Term {
	msg := fmt.Sprintf(format, a...)
	e.u.specErrors = append(e.u.specErrors, msg)
	return Term{S: e.u.c.fresh("specerr", "Bool"), T: types.Typ[types.Bool]}
}

func (e *SpecEnv) evalBool(x ast.Expr) string {
	t := e.eval(x)
	if t.T != nil && !isBoolType(t.T) {
		e.fail("contract expression is not boolean: %s", e.u.exprText(x))
	}
	return t.S
}

func (e *SpecEnv) curState() *State {
	if e.inOld && e.old != nil {
		return e.old
	}
	return e.st
}

// localTerm: the value a contract denotes by naming the Go variable v of the unit.
func (e *SpecEnv) localTerm(v *types.Var, name string) Term {
	u := e.u
	st := e.curState()
	if e.inOld {
		if ev, ok := u.entryVals[v]; ok {
			return ev
		}
	}
	if isParamOf(u.sig, v) && !e.loopInv {
		if ev, ok := u.entryVals[v]; ok {
			if u.boxed[v] {
				return u.readVar(st, v, token.NoPos)
			}
			return ev
		}
	}
	if _, has := st.vars[v]; has || u.volatile[v] {
		return u.readVar(st, v, token.NoPos)
	}
	e.outOfScope = true
	return e.fail("variable %s is not in scope at this point", name)
}

func (e *SpecEnv) lookup(name string) (Term, bool) {
	if t, ok := e.bound[name]; ok {
		return t, true
	}
	if t, ok := e.names[name]; ok {
		return t, true
	}
	u := e.u
	if strings.HasPrefix(name, "rangeidx") {
		var n int
		if _, err := fmt.Sscanf(name, "vislensum%d", &n); err == nil && strings.HasPrefix(name, "vislensum") {
			if v, ok := u.visLenVars[n]; ok {
				if t, has := e.curState().vars[v]; has {
					return Term{S: t.S, T: types.Typ[types.Int]}, true
				}
			}
		}
		if _, err := fmt.Sscanf(name, "rangeidx%d", &n); err == nil {
			if v, ok := u.rangeVars[n]; ok {
				return u.readVar(e.curState(), v, token.NoPos), true
			}
			// the range loop the contract was written for is now a counted loop `for i := 0; ...; i++`: its counter
			if v, ok := u.forIdxVars[n]; ok {
				if _, has := e.curState().vars[v]; has {
					return u.readVar(e.curState(), v, token.NoPos), true
				}
			}
		}
	}
	// Go locals of the unit (own contracts only)
	if e.own && u.decl != nil && e.scopePos.IsValid() {
		if sc := u.pkg.Types.Scope().Innermost(e.scopePos); sc != nil {
			if _, obj := sc.LookupParent(name, e.scopePos); obj != nil {
				if v, ok := obj.(*types.Var); ok && v.Parent() != u.pkg.Types.Scope() {
					return e.localTerm(v, name), true
				}
			}
		}
	}
	// inside an inlined body (function literal or `inline` callee) invariants may name the variables of the call site:
	// fall back to a live variable of that name if it is unique
	if e.own && (len(u.inlineStack) > 0 || e.loopInv) {
		var found *types.Var
		n := 0
		for v := range e.curState().vars {
			if v.Name() == name {
				found = v
				n++
			}
		}
		if n == 1 {
			return u.readVar(e.curState(), found, token.NoPos), true
		}
	}
	// package level
	if e.pkg != nil {
		if obj := e.pkg.Scope().Lookup(name); obj != nil {
			switch o := obj.(type) {
			case *types.Const:
				if t, ok := u.constTerm(o.Val(), o.Type()); ok {
					if b, ok := o.Type().(*types.Basic); ok && b.Info()&types.IsUntyped != 0 {
						t.T = nil
					}
					return t, true
				}
			case *types.Var:
				return u.readGlobal(e.curState(), o), true
			case *types.Func:
				return u.funcRef(o), true
			}
		}
	}
	switch name {
	case "true":
		return boolTerm(true), true
	case "false":
		return boolTerm(false), true
	case "nil":
		return Term{S: "0", T: types.Typ[types.UntypedNil]}, true
	}
	return Term{}, false
}

func isParamOf(sig *types.Signature, v *types.Var) bool {
	if sig == nil {
		return false
	}
	if sig.Recv() == v {
		return true
	}
	for i := 0; i < sig.Params().Len(); i++ {
		if sig.Params().At(i) == v {
			return true
		}
	}
	return false
}

func (e *SpecEnv) resolveType(x ast.Expr) types.Type {
	s := e.u.exprText(x)
	return e.resolveTypeString(s)
}

func (e *SpecEnv) resolveTypeString(s string) types.Type {
	s = strings.TrimSpace(s)
	if !strings.Contains(s, "interface{") && !strings.Contains(s, "struct{") && !strings.Contains(s, "func(") {
		s = strings.Join(strings.Fields(s), "") // the printer puts blanks after the dot of synthetic selector nodes
	}
	if t, ok := e.u.eng.typeCache[e.pkgPath()+"::"+s]; ok {
		return t
	}
	var t types.Type
	// pkg.Name or *pkg.Name through the package's imports
	{
		base := strings.TrimPrefix(s, "*")
		if i := strings.Index(base, "."); i > 0 && !strings.ContainsAny(base, "[]( ") {
			if p := e.importedPkg(base[:i]); p != nil {
				if tn, ok := p.Scope().Lookup(base[i+1:]).(*types.TypeName); ok {
					t = tn.Type()
					if strings.HasPrefix(s, "*") {
						t = types.NewPointer(t)
					}
				}
			}
		}
	}
	if e.pkg != nil {
		if tv, err := types.Eval(e.u.fset, e.pkg, token.NoPos, s); err == nil && tv.IsType() {
			t = tv.Type
		}
	}
	if t == nil {
		if tv, err := types.Eval(e.u.fset, nil, token.NoPos, s); err == nil && tv.IsType() {
			t = tv.Type
		}
	}
	e.u.eng.typeCache[e.pkgPath()+"::"+s] = t
	return t
}

func (e *SpecEnv) pkgPath() string {
	if e.pkg == nil {
		return ""
	}
	return e.pkg.Path()
}

func (e *SpecEnv) eval(x ast.Expr) Term {
	u := e.u
	c := u.c
	switch x := x.(type) {
	case *ast.ParenExpr:
		return e.eval(x.X)
	case *ast.BasicLit:
		switch x.Kind {
		case token.INT, token.CHAR:
			v := constant.MakeFromLiteral(x.Value, x.Kind, 0)
			bi, _ := new(big.Int).SetString(v.ExactString(), 10)
			if bi == nil {
				return e.fail("bad literal %s", x.Value)
			}
			return Term{S: smtInt(bi), K: bi}
		case token.STRING:
			v := constant.MakeFromLiteral(x.Value, x.Kind, 0)
			t, _ := u.constTerm(v, types.Typ[types.String])
			return t
		}
		return e.fail("unsupported literal %s", x.Value)
	case *ast.Ident:
		if t, ok := e.lookup(x.Name); ok {
			return t
		}
		// a local the contract was written for but that was renamed since: baseline bindings (bindings.go)
		if e.own && e.u.decl != nil {
			if v := e.u.rebindVar(x.Name, e.scopePos); v != nil {
				return e.localTerm(v, x.Name)
			}
		}
		return e.fail("unknown identifier %q in contract", x.Name)
	case *ast.SelectorExpr:
		// qualified identifier pkg.Name ?
		if id, ok := x.X.(*ast.Ident); ok {
			if _, isVal := e.lookup(id.Name); !isVal {
				if p := e.importedPkg(id.Name); p != nil {
					if obj := p.Scope().Lookup(x.Sel.Name); obj != nil {
						switch o := obj.(type) {
						case *types.Const:
							if t, ok := u.constTerm(o.Val(), o.Type()); ok {
								if b, ok := o.Type().(*types.Basic); ok && b.Info()&types.IsUntyped != 0 {
									t.T = nil
								}
								return t
							}
						case *types.Var:
							return u.readGlobal(e.curState(), o)
						}
					}
					return e.fail("unknown %s.%s", id.Name, x.Sel.Name)
				}
			}
		}
		base := e.eval(x.X)
		return e.field(base, x.Sel.Name, x)
	case *ast.StarExpr:
		p := e.eval(x.X)
		pt, ok := p.T.Underlying().(*types.Pointer)
		if !ok {
			return e.fail("deref of non-pointer in contract")
		}
		r := u.loadCell(e.curState(), pt.Elem(), p.S)
		e.noteRead(r)
		return r
	case *ast.IndexExpr:
		b := e.eval(x.X)
		i := e.eval(x.Index)
		return e.index(b, i, x)
	case *ast.SliceExpr:
		b := e.eval(x.X)
		sl, ok := b.T.Underlying().(*types.Slice)
		if !ok {
			return e.fail("slice expression on non-slice in contract")
		}
		_ = sl
		lo := c.idxConst(0)
		hi := sLen(b.S)
		if x.Low != nil {
			lo = u.toIdx(e.eval(x.Low))
		}
		if x.High != nil {
			hi = u.toIdx(e.eval(x.High))
		}
		return Term{S: fmt.Sprintf("(mk_slice %s %s %s %s)", sRef(b.S), c.idxAdd(sOff(b.S), lo), c.idxSub(hi, lo), c.idxSub(sCap(b.S), lo)), T: b.T}
	case *ast.UnaryExpr:
		a := e.eval(x.X)
		switch x.Op {
		case token.NOT:
			return Term{S: not(a.S), T: types.Typ[types.Bool]}
		case token.SUB:
			if a.T == nil && a.K != nil {
				n := new(big.Int).Neg(a.K)
				return Term{S: smtInt(n), K: n}
			}
			if c.bv {
				return Term{S: "(bvneg " + a.S + ")", T: a.T}
			}
			return Term{S: "(- " + a.S + ")", T: a.T}
		case token.XOR:
			if c.bv {
				return Term{S: "(bvnot " + a.S + ")", T: a.T}
			}
		case token.ADD:
			return a
		}
		return e.fail("unsupported unary operator %s in contract", x.Op)
	case *ast.BinaryExpr:
		a := e.eval(x.X)
		b := e.eval(x.Y)
		switch x.Op {
		case token.LAND:
			return Term{S: and(a.S, b.S), T: types.Typ[types.Bool]}
		case token.LOR:
			return Term{S: or(a.S, b.S), T: types.Typ[types.Bool]}
		}
		return u.binop(nil, x.Op, a, b, nil, x, true)
	case *ast.CallExpr:
		return e.call(x)
	case *ast.TypeAssertExpr:
		// x.(*T) in a contract: view an interface value as its dynamic pointer type (no check)
		a := e.eval(x.X)
		if x.Type == nil {
			return e.fail("bad type assertion in contract")
		}
		t := e.resolveType(x.Type)
		if t == nil {
			return e.fail("unknown type in type assertion")
		}
		if a.T != nil && isEmptyInterface(a.T) && !types.IsInterface(t) {
			// dynamic value of an `any`: payload accessor (no check; combine with typeis(x, T))
			return Term{S: fmt.Sprintf("(%s %s)", u.anyPayloadFn(t), a.S), T: t}
		}
		if _, ok := t.Underlying().(*types.Pointer); !ok || u.c.sortOf(a.T) != "Int" {
			return e.fail("contract type assertions are supported only from non-empty interfaces to pointer types, or from `any` to a concrete type")
		}
		return Term{S: a.S, T: t}
	}
	return e.fail("unsupported contract expression %T", x)
}

func (e *SpecEnv) importedPkg(name string) *types.Package {
	if e.pkg == nil {
		return nil
	}
	for _, imp := range e.pkg.Imports() {
		if imp.Name() == name {
			return imp
		}
	}
	// a local import alias (`carv1 "github.com/ipld/go-car"`)
	if p := e.u.eng.pkgs[e.pkg.Path()]; p != nil {
		for _, f := range p.Syntax {
			for _, is := range f.Imports {
				if is.Name != nil && is.Name.Name == name {
					path := strings.Trim(is.Path.Value, "\"")
					for _, imp := range e.pkg.Imports() {
						if imp.Path() == path {
							return imp
						}
					}
				}
			}
		}
	}
	return nil
}

func (e *SpecEnv) field(base Term, name string, at ast.Node) Term {
	u := e.u
	if base.T == nil {
		return e.fail("field %s of untyped value", name)
	}
	obj, path, _ := types.LookupFieldOrMethod(base.T, true, e.pkg, name)
	if obj == nil {
		// contracts are ghost code: an unexported field of a type of another repository package may be named
		bt := base.T
		if pt, ok := bt.Underlying().(*types.Pointer); ok {
			bt = pt.Elem()
		}
		if nm, ok := bt.(*types.Named); ok && nm.Obj().Pkg() != nil && u.eng.isRepoPkg(nm.Obj().Pkg().Path()) {
			obj, path, _ = types.LookupFieldOrMethod(base.T, true, nm.Obj().Pkg(), name)
		}
	}
	if f, ok := obj.(*types.Func); ok {
		mv := "mv_" + sanitize(f.FullName())
		rs := u.c.sortOf(base.T)
		u.c.declareFun(mv, "("+rs+") Int")
		sig := f.Type().(*types.Signature)
		return Term{S: fmt.Sprintf("(%s %s)", mv, base.S), T: types.NewSignatureType(nil, nil, nil, sig.Params(), sig.Results(), sig.Variadic())}
	}
	if _, ok := obj.(*types.Var); !ok {
		return e.fail("no field %s in %s", name, base.T)
	}
	cur := base
	for _, i := range path {
		if pt, ok := cur.T.Underlying().(*types.Pointer); ok {
			cur = u.loadCell(e.curState(), pt.Elem(), cur.S)
		}
		if _, ok := cur.T.Underlying().(*types.Struct); !ok {
			return e.fail("field %s of non-struct", name)
		}
		cur = u.fieldGet(cur, i)
	}
	e.noteRead(cur)
	return cur
}

func (e *SpecEnv) noteRead(t Term) {
	if t.T == nil {
		return
	}
	switch t.T.Underlying().(type) {
	case *types.Pointer, *types.Slice, *types.Map:
		if len(e.reads) < 64 {
			e.reads = append(e.reads, t)
		}
	}
}

func (e *SpecEnv) index(b, i Term, at ast.Node) Term {
	u := e.u
	if b.T == nil {
		return e.fail("index of untyped value")
	}
	switch ut := b.T.Underlying().(type) {
	case *types.Slice:
		return u.sliceElem(e.curState(), b, u.toIdx(i))
	case *types.Array:
		return Term{S: fmt.Sprintf("(select %s %s)", b.S, u.toIdx(i)), T: ut.Elem()}
	case *types.Pointer:
		if at, ok := ut.Elem().Underlying().(*types.Array); ok {
			blk := u.loadCell(e.curState(), ut.Elem(), b.S)
			return Term{S: fmt.Sprintf("(select %s %s)", blk.S, u.toIdx(i)), T: at.Elem()}
		}
	case *types.Map:
		k := u.coerceSpec(i, ut.Key())
		k.T = ut.Key()
		v, _ := u.mapLookupSpec(e.curState(), b, k, ut)
		return v
	}
	return e.fail("unsupported index base %s in contract", b.T)
}

func (e *SpecEnv) call(x *ast.CallExpr) Term {
	u := e.u
	c := u.c
	id, isId := x.Fun.(*ast.Ident)
	if isId {
		switch id.Name {
		case "__imp":
			return Term{S: implies(e.evalBool(x.Args[0]), e.evalBool(x.Args[1])), T: types.Typ[types.Bool]}
		case "__iff":
			return Term{S: eq(e.evalBool(x.Args[0]), e.evalBool(x.Args[1])), T: types.Typ[types.Bool]}
		case "__forall", "__exists":
			return e.quant(id.Name == "__forall", x)
		case "old":
			if e.old == nil {
				return e.fail("old() not available here")
			}
			saved := e.inOld
			e.inOld = true
			t := e.eval(x.Args[0])
			e.inOld = saved
			return t
		case "called":
			// called(f): number of executions of a call `f(...)` (callee text) by this activation so far
			if len(x.Args) != 1 {
				return e.fail("called(f) takes the callee expression")
			}
			u.initCounted()
			id, ok := u.counted[strings.Join(strings.Fields(u.exprText(x.Args[0])), "")]
			if !ok || u.entry == nil {
				return e.fail("called(%s): not a counted callee of this function", u.exprText(x.Args[0]))
			}
			h := u.ghostHeap("called")
			return Term{S: fmt.Sprintf("(- (select %s %d) (select %s %d))", u.heapRead(e.curState(), h), id, u.heapRead(u.entry, h), id), T: types.Typ[types.Int]}
		case "atentry":
			// the value of the expression when the function under verification was entered (in call-site conditions
			// old() is the state just before that call)
			if e.u.entry == nil {
				return e.fail("atentry() not available here")
			}
			savedSt, savedOld := e.st, e.inOld
			e.st, e.inOld = e.u.entry, false
			t := e.eval(x.Args[0])
			e.st, e.inOld = savedSt, savedOld
			return t
		case "athead":
			// loop step clauses: the value of the expression at the start of the current iteration
			if e.head == nil {
				return e.fail("athead() is only available in `loop N step` clauses")
			}
			savedSt, savedOld := e.st, e.inOld
			e.st, e.inOld = e.head, false
			t := e.eval(x.Args[0])
			e.st, e.inOld = savedSt, savedOld
			return t
		case "len", "cap":
			a := e.eval(x.Args[0])
			if a.T == nil {
				return e.fail("len of untyped")
			}
			t := a.T
			if pt, ok := t.Underlying().(*types.Pointer); ok {
				t = pt.Elem()
			}
			switch ut := t.Underlying().(type) {
			case *types.Slice:
				if id.Name == "len" {
					return Term{S: sLen(a.S), T: types.Typ[types.Int]}
				}
				return Term{S: sCap(a.S), T: types.Typ[types.Int]}
			case *types.Array:
				return Term{S: c.idxConst(ut.Len()), T: types.Typ[types.Int], K: big.NewInt(ut.Len())}
			case *types.Basic:
				if isStringType(t) {
					return Term{S: "(gstr.len " + a.S + ")", T: types.Typ[types.Int]}
				}
			}
			return e.fail("len of %s", a.T)
		case "ite":
			cnd := e.evalBool(x.Args[0])
			a := e.eval(x.Args[1])
			b := e.eval(x.Args[2])
			a, b = u.unify(a, b)
			return Term{S: ite(cnd, a.S, b.S), T: a.T, Spec: a.Spec}
		case "ref":
			// identity of a slice's / pointer's storage
			a := e.eval(x.Args[0])
			if a.T != nil {
				if _, ok := a.T.Underlying().(*types.Slice); ok {
					return Term{S: sRef(a.S), Spec: "Int"}
				}
			}
			return Term{S: a.S, Spec: "Int"}
		case "fresh":
			// fresh(x): storage of x was allocated during the call
			a := e.eval(x.Args[0])
			if e.old == nil {
				return e.fail("fresh() needs a pre-state")
			}
			r := a.S
			if a.T != nil {
				if _, ok := a.T.Underlying().(*types.Slice); ok {
					r = sRef(a.S)
				}
			}
			return Term{S: or(eq(r, "0"), "(>= "+r+" "+e.old.alloc+")"), T: types.Typ[types.Bool]}
		case "lensum":
			// lensum(m): sum of len(m[k]) over the present keys of a map of slices (ghost kept by the map operations)
			if len(x.Args) != 1 {
				return e.fail("lensum(m) takes one argument")
			}
			a := e.eval(x.Args[0])
			mt, ok := a.T.Underlying().(*types.Map)
			if a.T == nil || !ok {
				return e.fail("lensum needs a map")
			}
			hl := u.lensumHeap(mt)
			if hl == "" {
				return e.fail("lensum: not a map of slices (or mode bv)")
			}
			ls := fmt.Sprintf("(select %s %s)", u.heapRead(e.curState(), hl), a.S)
			if len(e.bound) == 0 && !strings.Contains(a.S, "_q") {
				// a sum of lengths is never negative (ground instance, asserted once)
				u.c.declareRaw("lensum_nonneg_"+ls, "(assert (>= "+ls+" 0))")
			}
			return Term{S: ls, T: types.Typ[types.Int]}
		case "freshin":
			// freshin(N, x): the storage of x was allocated after the current iteration of loop N began
			if len(x.Args) != 2 {
				return e.fail("freshin(N, x) needs a loop ordinal and a value")
			}
			lit, ok := x.Args[0].(*ast.BasicLit)
			if !ok {
				return e.fail("freshin(N, x): N must be an integer literal")
			}
			n, err := strconv.Atoi(lit.Value)
			if err != nil {
				return e.fail("freshin(N, x): N must be an integer literal")
			}
			la, ok := u.loopAlloc[n]
			if !ok {
				return e.fail("freshin(%d, x) used outside loop %d", n, n)
			}
			a := e.eval(x.Args[1])
			r := a.S
			if a.T != nil {
				if _, ok := a.T.Underlying().(*types.Slice); ok {
					r = sRef(a.S)
				}
			}
			return Term{S: or(eq(r, "0"), "(>= "+r+" "+la+")"), T: types.Typ[types.Bool]}
		case "cidstr":
			// cidstr(c): the text form c.String() of a cid.Cid (injective pure function of the value)
			a := e.eval(x.Args[0])
			if a.T == nil || u.c.sortOf(a.T) != "S_cid_Cid" {
				return e.fail("cidstr needs a cid.Cid value")
			}
			cs := u.c.sortOf(a.T)
			u.c.declareFun("cid.str", "("+cs+") Str")
			u.c.declareFun("cid.str.inv", "(Str) "+cs)
			u.c.declareRaw("cid.str.injective", fmt.Sprintf("(assert (forall ((x %s)) (! (= (cid.str.inv (cid.str x)) x) :pattern ((cid.str x)))))", cs))
			return Term{S: "(cid.str " + a.S + ")", T: types.Typ[types.String]}
		case "cidlen", "cidbyte":
			// byte form of a cid.Cid value (pure functions of the value): its length and k-th byte
			a := e.eval(x.Args[0])
			if a.T == nil || u.c.sortOf(a.T) != "S_cid_Cid" {
				return e.fail("%s needs a cid.Cid value", id.Name)
			}
			u.declareCidGhost()
			if id.Name == "cidlen" {
				return Term{S: "(cid.bytelen " + a.S + ")", T: types.Typ[types.Int]}
			}
			k := e.eval(x.Args[1])
			return Term{S: fmt.Sprintf("(select (cid.bytes %s) %s)", a.S, u.toIdxSpec(k)), T: types.Typ[types.Uint8]}
		case "allocated":
			// allocated(x): x's storage exists in the current state (so anything allocated later is different from it)
			a := e.eval(x.Args[0])
			r := a.S
			if a.T != nil {
				if _, ok := a.T.Underlying().(*types.Slice); ok {
					r = sRef(a.S)
				}
			}
			return Term{S: and("(<= 0 "+r+")", "(< "+r+" "+e.curState().alloc+")"), T: types.Typ[types.Bool]}
		case "isErr":
			// errors.Is(err, target)
			a := e.eval(x.Args[0])
			b := e.eval(x.Args[1])
			return Term{S: or(eq(a.S, b.S), fmt.Sprintf("(errwraps %s %s)", a.S, b.S)), T: types.Typ[types.Bool]}
		case "unfold":
			return e.unfold(x)
		case "typeis":
			// typeis(x, T): the dynamic type of the `any` value x is T; typeis(x, nil): x is the nil interface
			a := e.eval(x.Args[0])
			if a.T == nil || !isEmptyInterface(a.T) {
				return e.fail("typeis() needs a value of type any")
			}
			if id2, ok := x.Args[1].(*ast.Ident); ok && id2.Name == "nil" {
				return Term{S: eq("(any.tag "+a.S+")", "0"), T: types.Typ[types.Bool]}
			}
			t := e.resolveType(x.Args[1])
			if t == nil {
				return e.fail("typeis(): unknown type")
			}
			return Term{S: eq("(any.tag "+a.S+")", fmt.Sprint(u.typeTag(t))), T: types.Typ[types.Bool]}
		case "has":
			// has(m, k): key k is present in map m
			m := e.eval(x.Args[0])
			mt, ok := m.T.Underlying().(*types.Map)
			if !ok {
				return e.fail("has() needs a map")
			}
			k := u.coerceSpec(e.eval(x.Args[1]), mt.Key())
			k.T = mt.Key()
			_, present := u.mapLookupSpec(e.curState(), m, k, mt)
			return Term{S: present, T: types.Typ[types.Bool]}
		case "chancap":
			// the buffer capacity a channel was made with
			a := e.eval(x.Args[0])
			if _, ok := a.T.Underlying().(*types.Chan); !ok {
				return e.fail("chancap needs a channel")
			}
			u.c.declareFun("chan.cap", "(Int) "+u.c.idxSort())
			return Term{S: "(chan.cap " + a.S + ")", T: types.Typ[types.Int]}
		case "chanlen", "chanat":
			// ghost sequence of the values received from a channel (see execRangeChan)
			a := e.eval(x.Args[0])
			ct, ok := a.T.Underlying().(*types.Chan)
			if !ok {
				return e.fail("%s needs a channel", id.Name)
			}
			ln, at := u.chanGhost(ct.Elem())
			if id.Name == "chanlen" {
				return Term{S: "(" + ln + " " + a.S + ")", T: types.Typ[types.Int]}
			}
			i := e.eval(x.Args[1])
			return Term{S: fmt.Sprintf("(%s %s %s)", at, a.S, u.toIdxSpec(i)), T: ct.Elem()}
		case "written", "consumed":
			// ghost byte counters of a writer / reader
			a := e.eval(x.Args[0])
			return Term{S: u.ghostCount(e.curState(), id.Name, a.S), T: types.Typ[types.Int]}
		case "faithful":
			// the reader behaves like a file: ReadAt returns exactly min(len(p), size-off) bytes, io.EOF only when short
			a := e.eval(x.Args[0])
			u.declareReaderGhost()
			u.c.declareFun("rd.faithful", "(Int) Bool")
			return Term{S: "(rd.faithful " + a.S + ")", T: types.Typ[types.Bool]}
		case "readfull":
			// readfull(r, off, n): a ReadAt of n bytes at off on r delivers all n bytes (whatever error accompanies them);
			// a fixed property of the reader and the range (assumed: the same range is always or never delivered in full)
			if len(x.Args) != 3 {
				return e.fail("readfull(r, off, n) takes three arguments")
			}
			a := e.eval(x.Args[0])
			o := e.eval(x.Args[1])
			n := e.eval(x.Args[2])
			u.declareReaderGhost()
			is := u.c.idxSort()
			u.c.declareFun("rd.full", "(Int "+is+" "+is+") Bool")
			return Term{S: fmt.Sprintf("(rd.full %s %s %s)", a.S, u.toIdx(o), u.toIdx(n)), T: types.Typ[types.Bool]}
		case "fsize":
			// ghost size of the file behind an io.ReaderAt
			a := e.eval(x.Args[0])
			u.declareReaderGhost()
			return Term{S: "(rd.size " + a.S + ")", T: types.Typ[types.Int]}
		case "fbyte":
			a := e.eval(x.Args[0])
			i := e.eval(x.Args[1])
			u.declareReaderGhost()
			return Term{S: fmt.Sprintf("(select (rd.content %s) %s)", a.S, u.toIdxSpec(i)), T: types.Typ[types.Uint8]}
		case "held":
			sel, ok := ast.Unparen(x.Args[0]).(*ast.SelectorExpr)
			if !ok {
				return e.fail("held() needs a field selector like m.mu")
			}
			base := e.eval(sel.X)
			name := "?"
			if base.T != nil {
				t := base.T
				if p, ok := t.Underlying().(*types.Pointer); ok {
					t = p.Elem()
				}
				if n, ok := t.(*types.Named); ok {
					name = n.Obj().Name()
				}
			}
			return Term{S: e.u.heldTerm(e.curState(), name+"."+sel.Sel.Name), Spec: "Int"}
		}
		if strings.HasPrefix(id.Name, "visited") && len(x.Args) == 1 {
			var n int
			if _, err := fmt.Sscanf(id.Name, "visited%d", &n); err == nil {
				if v, ok := u.visitedVars[n]; ok {
					cur, ok := e.curState().vars[v]
					if !ok {
						return e.fail("%s is not in scope here", id.Name)
					}
					k := e.eval(x.Args[0])
					return Term{S: fmt.Sprintf("(select %s %s)", cur.S, k.S), T: types.Typ[types.Bool]}
				}
			}
		}
		if strings.HasPrefix(id.Name, "res") && len(id.Name) == 4 && id.Name[3] >= '0' && id.Name[3] <= '9' {
			f := e.eval(x.Args[0])
			sig, ok := f.T.Underlying().(*types.Signature)
			if !ok {
				return e.fail("%s: first argument is not a function", id.Name)
			}
			i := int(id.Name[3] - '0')
			if i >= sig.Results().Len() {
				return e.fail("%s: function has no result %d", id.Name, i)
			}
			var args []Term
			for k, a := range x.Args[1:] {
				t := e.eval(a)
				if k < sig.Params().Len() {
					t = u.coerceSpec(t, sig.Params().At(k).Type())
				}
				args = append(args, t)
			}
			return u.pureApply(nil, f, args, i, sig.Results().At(i).Type())
		}
		// spec function?
		if sf := e.specFunc(id.Name); sf != nil {
			return e.applySpecFunc(sf, x)
		}
		if lm := e.lemma(id.Name); lm != nil {
			if !e.allowLemma {
				return e.fail("lemma %s may only be cited in a use clause", id.Name)
			}
			return e.applyLemma(lm, x)
		}
		// pure repo function
		if e.pkg != nil {
			if f, ok := e.pkg.Scope().Lookup(id.Name).(*types.Func); ok {
				if ct, _ := u.eng.contractFor(f); ct != nil && ct.Pure {
					sig := f.Type().(*types.Signature)
					var args []Term
					for k, a := range x.Args {
						t := e.eval(a)
						if k < sig.Params().Len() {
							t = u.coerceSpec(t, sig.Params().At(k).Type())
							t.T = sig.Params().At(k).Type()
						}
						args = append(args, t)
					}
					return u.pureFuncApp(f, args, 0)
				}
			}
		}
		// conversion to a Go type
		if t := e.resolveTypeString(id.Name); t != nil && len(x.Args) == 1 {
			a := e.eval(x.Args[0])
			return e.convert(a, t)
		}
		return e.fail("unknown function %q in contract", id.Name)
	}
	// conversion with composite type expression, e.g. []byte(x) — rarely needed
	if len(x.Args) == 1 {
		if t := e.resolveType(x.Fun); t != nil {
			return e.convert(e.eval(x.Args[0]), t)
		}
	}
	// pkg.F(args): a spec function, or a pure contracted function, of an imported repository package
	if se, ok := x.Fun.(*ast.SelectorExpr); ok {
		if id, ok := se.X.(*ast.Ident); ok && e.bound[id.Name].S == "" && e.names[id.Name].S == "" {
			if p := e.importedPkg(id.Name); p != nil && u.eng.isRepoPkg(p.Path()) {
				var args []Term
				for _, a := range x.Args {
					args = append(args, e.eval(a))
				}
				cs2 := u.eng.contractsOf(p.Path())
				if sf := cs2.SpecFuncs[se.Sel.Name]; sf != nil {
					sub := &SpecEnv{u: u, st: e.st, old: e.old, names: map[string]Term{}, cs: cs2, pkg: p, inOld: e.inOld}
					r := sub.applySpecFuncArgs(sf, args)
					e.reads = append(e.reads, sub.reads...)
					return r
				}
				if f, ok := p.Scope().Lookup(se.Sel.Name).(*types.Func); ok {
					if ct, _ := u.eng.contractFor(f); ct != nil && ct.Pure {
						sig := f.Type().(*types.Signature)
						for k := range args {
							if k < sig.Params().Len() {
								args[k] = u.coerceSpec(args[k], sig.Params().At(k).Type())
								args[k].T = sig.Params().At(k).Type()
							}
						}
						return u.pureFuncApp(f, args, 0)
					}
					return e.fail("function %s.%s is not a pure contracted function", id.Name, se.Sel.Name)
				}
			}
		}
	}
	// method call x.M(args) of a pure contracted repository method
	if se, ok := x.Fun.(*ast.SelectorExpr); ok {
		recv := e.eval(se.X)
		if recv.T != nil {
			if obj, _, _ := types.LookupFieldOrMethod(recv.T, true, e.pkg, se.Sel.Name); obj != nil {
				if f, ok := obj.(*types.Func); ok {
					if ct, _ := u.eng.contractFor(f); ct != nil && ct.Pure {
						sig := f.Type().(*types.Signature)
						args := []Term{recv}
						for k, a := range x.Args {
							t := e.eval(a)
							if k < sig.Params().Len() {
								t = u.coerceSpec(t, sig.Params().At(k).Type())
								t.T = sig.Params().At(k).Type()
							}
							args = append(args, t)
						}
						return u.pureFuncApp(f, args, 0)
					}
					return e.fail("method %s is not a pure contracted method", se.Sel.Name)
				}
			}
		}
	}
	return e.fail("unsupported call in contract: %s", u.exprText(x))
}

func (u *Unit) coerceSpec(t Term, to types.Type) Term {
	if t.T == nil {
		return u.materialize(t, to)
	}
	return t
}

func (e *SpecEnv) convert(a Term, t types.Type) Term {
	u := e.u
	if a.T == nil && a.K != nil {
		return u.materialize(a, t)
	}
	if _, _, ok := intInfo(t); ok {
		if a.T == nil {
			a.T = types.Typ[types.Int]
		}
		if _, _, ok := intInfo(a.T); ok {
			return u.convertInt(a, t)
		}
	}
	if a.T != nil && u.c.sortOf(a.T) == u.c.sortOf(t) {
		a.T = t
		return a
	}
	return e.fail("unsupported conversion to %s in contract", t)
}

func (e *SpecEnv) specFunc(name string) *SpecFunc {
	if e.cs != nil {
		if sf, ok := e.cs.SpecFuncs[name]; ok {
			return sf
		}
	}
	if sf, ok := e.u.eng.theories.SpecFuncs[name]; ok {
		return sf
	}
	return nil
}

func (e *SpecEnv) lemma(name string) *Lemma {
	if e.cs != nil {
		if l, ok := e.cs.Lemmas[name]; ok {
			return l
		}
	}
	if l, ok := e.u.eng.theories.Lemmas[name]; ok {
		return l
	}
	return nil
}

func (e *SpecEnv) specSort(typ string) (string, types.Type) {
	switch typ {
	case "bool":
		return "Bool", types.Typ[types.Bool]
	}
	t := e.resolveTypeString(typ)
	if t == nil {
		e.fail("unknown type %q in spec function", typ)
		return "Int", types.Typ[types.Int]
	}
	return e.u.c.sortOf(t), t
}

func (e *SpecEnv) applySpecFunc(sf *SpecFunc, x *ast.CallExpr) Term {
	if len(x.Args) != len(sf.Params) {
		return e.fail("spec function %s: wrong number of arguments", sf.Name)
	}
	var args []Term
	for _, a := range x.Args {
		args = append(args, e.eval(a))
	}
	return e.applySpecFuncArgs(sf, args)
}

// applySpecFuncArgs applies sf (declared in e's contract set / package) to already evaluated arguments.
func (e *SpecEnv) applySpecFuncArgs(sf *SpecFunc, args []Term) Term {
	u := e.u
	if len(args) != len(sf.Params) {
		return e.fail("spec function %s: wrong number of arguments", sf.Name)
	}
	for i := range args {
		_, pt := e.specSort(sf.Params[i].Type)
		args[i] = u.coerceSpec(args[i], pt)
	}
	rs, rt := e.specSort(sf.Result)
	if sf.Body != nil && !sf.Recursive {
		// inline
		saved := e.bound
		nb := map[string]Term{}
		for k, v := range saved {
			nb[k] = v
		}
		for i, p := range sf.Params {
			nb[p.Name] = args[i]
		}
		// parameters shadow everything: evaluate body in an env without local names
		sub := &SpecEnv{u: u, st: e.st, old: e.old, names: map[string]Term{}, cs: e.cs, pkg: e.pkg, bound: nb, inOld: e.inOld}
		r := sub.eval(sf.Body)
		e.reads = append(e.reads, sub.reads...)
		r = u.coerceSpec(r, rt)
		return r
	}
	// uninterpreted symbol
	var sorts, as []string
	for i, p := range sf.Params {
		s, _ := e.specSort(p.Type)
		sorts = append(sorts, s)
		as = append(as, args[i].S)
	}
	name := "sf_" + sf.Name
	u.c.declareFun(name, "("+strings.Join(sorts, " ")+") "+rs)
	return Term{S: "(" + name + " " + strings.Join(as, " ") + ")", T: rt}
}

// unfold(f(args)) = the defining equation of recursive spec function f at args.
func (e *SpecEnv) unfold(x *ast.CallExpr) Term {
	u := e.u
	if len(x.Args) != 1 {
		return e.fail("unfold takes one argument")
	}
	call, ok := x.Args[0].(*ast.CallExpr)
	if !ok {
		return e.fail("unfold needs a spec function application")
	}
	id, ok := call.Fun.(*ast.Ident)
	if !ok {
		return e.fail("unfold needs a spec function application")
	}
	sf := e.specFunc(id.Name)
	if sf == nil || sf.Body == nil {
		return e.fail("unfold: %s is not a defined spec function", id.Name)
	}
	lhs := e.applySpecFunc(sf, call)
	nb := map[string]Term{}
	for i, p := range sf.Params {
		t := e.eval(call.Args[i])
		_, pt := e.specSort(p.Type)
		nb[p.Name] = u.coerceSpec(t, pt)
	}
	sub := &SpecEnv{u: u, st: e.st, old: e.old, names: map[string]Term{}, cs: e.cs, pkg: e.pkg, bound: nb}
	body := sub.eval(sf.Body)
	_, rt := e.specSort(sf.Result)
	body = u.coerceSpec(body, rt)
	return Term{S: eq(lhs.S, body.S), T: types.Typ[types.Bool]}
}

// applyLemma: instance (requires ==> ensures) of a proved lemma.
func (e *SpecEnv) applyLemma(lm *Lemma, x *ast.CallExpr) Term {
	u := e.u
	if len(x.Args) != len(lm.Params) {
		return e.fail("lemma %s: wrong number of arguments", lm.Name)
	}
	nb := map[string]Term{}
	for i, p := range lm.Params {
		t := e.eval(x.Args[i])
		_, pt := e.specSort(p.Type)
		nb[p.Name] = u.coerceSpec(t, pt)
	}
	sub := &SpecEnv{u: u, st: e.st, old: e.old, names: map[string]Term{}, cs: e.cs, pkg: e.pkg, bound: nb}
	var req, ens []string
	for _, r := range lm.Requires {
		req = append(req, sub.evalBool(r.Expr))
	}
	for _, r := range lm.Ensures {
		ens = append(ens, sub.evalBool(r.Expr))
	}
	u.usedLemmas[lm.Name] = true
	return Term{S: implies(and(req...), and(ens...)), T: types.Typ[types.Bool]}
}

func (e *SpecEnv) quant(forall bool, x *ast.CallExpr) Term {
	u := e.u
	c := u.c
	bl, ok := x.Args[0].(*ast.BasicLit)
	if !ok {
		return e.fail("bad quantifier")
	}
	binders, _ := strconv.Unquote(bl.Value)
	ps, err := parseParams(binders)
	if err != nil {
		return e.fail("bad quantifier binders %q", binders)
	}
	// bounded expansion: forall i int :: lo <= i && i < hi ==> P with literal bounds
	if forall && len(ps) == 1 {
		if lo, hi, body, ok := e.literalRange(ps[0].Name, x.Args[1]); ok && hi-lo <= 64 {
			var parts []string
			saved := e.bound
			for v := lo; v < hi; v++ {
				nb := map[string]Term{}
				for k, val := range saved {
					nb[k] = val
				}
				_, pt := e.specSort(ps[0].Type)
				nb[ps[0].Name] = u.materialize(Term{S: smtInt(big.NewInt(v)), K: big.NewInt(v)}, pt)
				// keep K so shifts by the index stay constant
				t := nb[ps[0].Name]
				t.K = big.NewInt(v)
				nb[ps[0].Name] = t
				e.bound = nb
				parts = append(parts, e.evalBool(body))
			}
			e.bound = saved
			return Term{S: and(parts...), T: types.Typ[types.Bool]}
		}
	}
	saved := e.bound
	nb := map[string]Term{}
	for k, v := range saved {
		nb[k] = v
	}
	var decls, ranges []string
	for _, p := range ps {
		s, pt := e.specSort(p.Type)
		e.qn++
		u.c.n++
		name := fmt.Sprintf("%s_q%d", sanitize(p.Name), u.c.n)
		nb[p.Name] = Term{S: name, T: pt}
		decls = append(decls, fmt.Sprintf("(%s %s)", name, s))
		if !isPlainInt(pt) {
			if r := u.rangeFacts(e.curState(), name, pt, 0); r != "true" {
				ranges = append(ranges, r)
			}
		}
	}
	e.bound = nb
	body := e.evalBool(x.Args[1])
	e.bound = saved
	_ = c
	if forall {
		return Term{S: fmt.Sprintf("(forall (%s) %s)", strings.Join(decls, " "), implies(and(ranges...), body)), T: types.Typ[types.Bool]}
	}
	return Term{S: fmt.Sprintf("(exists (%s) %s)", strings.Join(decls, " "), and(append(ranges, body)...)), T: types.Typ[types.Bool]}
}

// literalRange matches __imp(lo <= v && v < hi, body) with integer literals lo, hi.
func (e *SpecEnv) literalRange(v string, x ast.Expr) (int64, int64, ast.Expr, bool) {
	call, ok := x.(*ast.CallExpr)
	if !ok {
		return 0, 0, nil, false
	}
	id, ok := call.Fun.(*ast.Ident)
	if !ok || id.Name != "__imp" {
		return 0, 0, nil, false
	}
	cond, ok := ast.Unparen(call.Args[0]).(*ast.BinaryExpr)
	if !ok || cond.Op != token.LAND {
		return 0, 0, nil, false
	}
	l, ok1 := ast.Unparen(cond.X).(*ast.BinaryExpr)
	r, ok2 := ast.Unparen(cond.Y).(*ast.BinaryExpr)
	if !ok1 || !ok2 || l.Op != token.LEQ || r.Op != token.LSS {
		return 0, 0, nil, false
	}
	lit := func(x ast.Expr) (int64, bool) {
		t := e.constOnly(x)
		if t == nil {
			return 0, false
		}
		return t.Int64(), true
	}
	isV := func(x ast.Expr) bool {
		i, ok := ast.Unparen(x).(*ast.Ident)
		return ok && i.Name == v
	}
	lo, okl := lit(l.X)
	hi, okh := lit(r.Y)
	if !okl || !okh || !isV(l.Y) || !isV(r.X) {
		return 0, 0, nil, false
	}
	return lo, hi, call.Args[1], true
}

func (e *SpecEnv) constOnly(x ast.Expr) *big.Int {
	switch x := ast.Unparen(x).(type) {
	case *ast.BasicLit:
		if x.Kind == token.INT {
			bi, ok := new(big.Int).SetString(x.Value, 0)
			if ok {
				return bi
			}
		}
	case *ast.Ident:
		if _, bound := e.bound[x.Name]; bound {
			return nil
		}
		if _, local := e.names[x.Name]; local {
			return nil
		}
		if e.pkg != nil {
			if c, ok := e.pkg.Scope().Lookup(x.Name).(*types.Const); ok && c.Val().Kind() == constant.Int {
				bi, _ := new(big.Int).SetString(c.Val().ExactString(), 10)
				return bi
			}
		}
	}
	return nil
}

// validUse checks that a use-clause cites only proved lemmas / definitional unfoldings.
func (e *SpecEnv) validUse(x ast.Expr) bool {
	switch x := ast.Unparen(x).(type) {
	case *ast.BinaryExpr:
		return x.Op == token.LAND && e.validUse(x.X) && e.validUse(x.Y)
	case *ast.CallExpr:
		id, ok := x.Fun.(*ast.Ident)
		if !ok {
			return false
		}
		switch id.Name {
		case "__forall":
			// body may be guard ==> lemma
			return e.validUse(x.Args[1])
		case "__imp":
			return e.validUse(x.Args[1])
		case "unfold":
			return true
		}
		return e.lemma(id.Name) != nil
	}
	return false
}

// useClause evaluates a use clause into an assumption.
func (e *SpecEnv) useClause(cl Clause) string {
	if !e.validUse(cl.Expr) {
		e.fail("use clause may only cite lemmas and unfold(): %s", cl.Text)
		return "true"
	}
	saved := e.allowLemma
	e.allowLemma = true
	s := e.evalBool(cl.Expr)
	e.allowLemma = saved
	return s
}
