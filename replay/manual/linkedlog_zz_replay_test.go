package linkedlog

import (
	"fmt"
	"math/rand"
	"os"
	"path/filepath"
	"testing"

	"github.com/gagliardetto/solana-go"
	"github.com/rpcpool/yellowstone-faithful/indexes"
)

// (1) slice decoder: input that ends at a field boundary inside an entry
func TestReplayTruncatedEntry(t *testing.T) {
	e1 := OffsetAndSizeAndSlot{Offset: 1000, Size: 300, Slot: 77, Flags: 5}
	e2 := OffsetAndSizeAndSlot{Offset: 2000, Size: 400, Slot: 78, Flags: 1}
	full := append(e1.Bytes(), e2.Bytes()...)
	for cut := len(e1.Bytes()) + 1; cut < len(full); cut++ {
		got, err := OffsetAndSizeAndSlotSliceFromBytes(full[:cut])
		fmt.Printf("cut=%d/%d -> len=%d err=%v\n", cut, len(full), len(got), err)
	}
	got, err := OffsetAndSizeAndSlotSliceFromBytes([]byte{0x01})
	fmt.Printf("buf=[01] -> len=%d err=%v\n", len(got), err)
}

func mkLog(t *testing.T) (*LinkedLog, string) {
	p := filepath.Join(t.TempDir(), "ll")
	ll, err := NewLinkedLog(p)
	if err != nil {
		t.Fatal(err)
	}
	return ll, p
}

// (2) ReadWithSize with tiny sizes on a real file
func TestReplayTinySize(t *testing.T) {
	p := filepath.Join(t.TempDir(), "ll")
	os.WriteFile(p, make([]byte, 64), 0o644)
	ll, err := NewLinkedLog(p)
	if err != nil {
		t.Fatal(err)
	}
	for _, size := range []uint64{0, 1, 5, 9, 10} {
		func() {
			defer func() {
				if r := recover(); r != nil {
					fmt.Printf("size=%d PANIC: %v\n", size, r)
				}
			}()
			_, _, err := ll.ReadWithSize(0, size)
			fmt.Printf("size=%d err=%v\n", size, err)
		}()
	}
}

// (3) write one record of every length near the uvarint width boundary and read it back
func TestReplayBoundaryRecord(t *testing.T) {
	rng := rand.New(rand.NewSource(1))
	seen := map[int]bool{}
	for try := 0; try < 20000 && len(seen) < 7; try++ {
		n := 1 + rng.Intn(30)
		vals := make([]*OffsetAndSizeAndSlot, n)
		for i := range vals {
			vals[i] = &OffsetAndSizeAndSlot{Offset: rng.Uint64() >> uint(rng.Intn(60)), Size: rng.Uint64() >> uint(rng.Intn(60)), Slot: rng.Uint64() >> uint(rng.Intn(60)), Flags: Bitmap(rng.Intn(8))}
		}
		enc, err := createIndexesPayload(vals)
		if err != nil {
			t.Fatal(err)
		}
		P := len(enc) + 9
		total := sizeOfUvarint(uint64(P)) + P
		if total < 125 || total > 131 || seen[total] {
			continue
		}
		seen[total] = true
		ll, _ := mkLog(t)
		want := make([]OffsetAndSizeAndSlot, n)
		for i := range vals { // Put reverses the batch
			want[n-1-i] = *vals[i]
		}
		var off uint64
		var ln uint32
		_, err = ll.Put(
			func(pk solana.PublicKey) (indexes.OffsetAndSize, error) { return indexes.OffsetAndSize{}, nil },
			func(pk solana.PublicKey, offset uint64, l uint32) error { off, ln = offset, l; return nil },
			KeyToOffsetAndSizeAndBlocktime{Key: solana.PublicKey{1}, Values: vals},
		)
		if err != nil {
			t.Fatal(err)
		}
		ll.Flush()
		got, _, err := ll.ReadWithSize(off, uint64(ln))
		ok := err == nil && len(got) == n
		if ok {
			for i := range got {
				ok = ok && got[i] == want[i]
			}
		}
		got2, _, err2 := ll.Read(off)
		fmt.Printf("record len=%d (P=%d, entries=%d): ReadWithSize ok=%v err=%v | Read len=%d err=%v\n", ln, P, n, ok, err, len(got2), err2)
	}
}
