#!/usr/bin/env python3
"""mkmeta.py <seeded-name> <PROP> <demo-dest> <needs...>  -- writes /verif/seeded/<name>/meta.json after confirm_mutant.sh said CONFIRMED"""
import json, sys, os, re
name, prop, demo = sys.argv[1], sys.argv[2], sys.argv[3]
needs = " ".join(sys.argv[4:])
d = '/verif/seeded/' + name
files = sorted(set(re.findall(r'^diff --git a/(\S+)', open(d + '/patch.diff').read(), re.M)))
meta = {
 "property": prop, "needs": needs, "files": files, "demo": demo,
 "source": "fresh sub-agent given only the property record and a scratch worktree (see tools/mutant_prompt.py)",
 "confirmed_by": "tools/confirm_mutant.sh in a fresh scratch worktree of /repo: patch applies, go build ./... ok, go test ./... (all packages) passes with the change, demonstration fails with the change and passes without",
 "ran": ["git apply patch.diff", "go build ./...", "go test -vet=off -count=1 ./...", "go test -run <demo> (with change: FAIL)", "git apply -R patch.diff", "go test -run <demo> (without change: PASS)"],
 "detected_by": "(see DESIGN.md section 7 and seeded/RESULTS.md)"
}
json.dump(meta, open(d + '/meta.json', 'w'), indent=1)
print("wrote", d + '/meta.json')
