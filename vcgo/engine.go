package main

import (
	"bytes"
	"fmt"
	"go/ast"
	"go/constant"
	"go/printer"
	"go/token"
	"go/types"
	"io"
	"math/big"
	"os"
	"path/filepath"
	"runtime/debug"
	"sort"
	"strings"

	"golang.org/x/tools/go/packages"
)

var repoDir = func() string {
	if d := os.Getenv("VERIF_REPO"); d != "" {
		return d
	}
	return "/repo"
}()

const repoMod = "github.com/rpcpool/yellowstone-faithful"

type Engine struct {
	fset       *token.FileSet
	pkgs       map[string]*packages.Package // by import path
	contracts  map[string]*ContractSet      // by import path
	theories   *ContractSet
	typeCache  map[string]types.Type
	assigned   map[string]map[*types.Var]bool
	inits      map[*types.Var]ast.Expr
	funcLits   map[*ast.FuncLit]*Unit
	finalCache map[string][]int
	verifDir   string
	bindings   Bindings
}

func newEngine(verifDir string) *Engine {
	return &Engine{fset: token.NewFileSet(), pkgs: map[string]*packages.Package{}, contracts: map[string]*ContractSet{},
		theories: newContractSet(), typeCache: map[string]types.Type{}, assigned: map[string]map[*types.Var]bool{},
		inits: map[*types.Var]ast.Expr{}, funcLits: map[*ast.FuncLit]*Unit{}, verifDir: verifDir}
}

func (eng *Engine) isRepoPkg(path string) bool {
	return path == repoMod || strings.HasPrefix(path, repoMod+"/")
}

func (eng *Engine) load(patterns ...string) error {
	var need []string
	for _, p := range patterns {
		ip := repoMod
		if p != "." && p != "" {
			ip = repoMod + "/" + strings.TrimPrefix(p, "./")
		}
		if _, ok := eng.pkgs[ip]; !ok {
			need = append(need, "./"+strings.TrimPrefix(strings.TrimPrefix(p, "./"), "/"))
		}
	}
	if len(need) == 0 {
		return nil
	}
	cfg := &packages.Config{Mode: packages.NeedName | packages.NeedFiles | packages.NeedSyntax | packages.NeedTypes | packages.NeedTypesInfo | packages.NeedImports,
		Dir: repoDir, BuildFlags: []string{"-tags=verif"}, Fset: eng.fset,
		Env: append(os.Environ(), "GOFLAGS=-mod=readonly", "GOPROXY=off", "GOSUMDB=off", "GOTOOLCHAIN=local")}
	pkgs, err := packages.Load(cfg, need...)
	if err != nil {
		return err
	}
	for _, p := range pkgs {
		if len(p.Errors) > 0 {
			return fmt.Errorf("package %s does not type-check: %v", p.PkgPath, p.Errors[0])
		}
		eng.pkgs[p.PkgPath] = p
	}
	return nil
}

func (eng *Engine) loadTheories() error {
	files, _ := filepath.Glob(filepath.Join(eng.verifDir, "theories", "*.vcl"))
	sort.Strings(files)
	for _, f := range files {
		if err := eng.theories.loadFile(f); err != nil {
			return err
		}
	}
	return nil
}

// contractsOf loads (once) the contract file of a repo package.
func (eng *Engine) contractsOf(pkgPath string) *ContractSet {
	if cs, ok := eng.contracts[pkgPath]; ok {
		return cs
	}
	cs := newContractSet()
	eng.contracts[pkgPath] = cs
	if !eng.isRepoPkg(pkgPath) {
		return cs
	}
	rel := strings.TrimPrefix(strings.TrimPrefix(pkgPath, repoMod), "/")
	files, _ := filepath.Glob(filepath.Join(repoDir, rel, "contracts_verif*.go"))
	sort.Strings(files)
	for _, path := range files {
		if err := cs.loadFile(path); err != nil {
			fmt.Fprintf(os.Stderr, "vcgo: contract file error: %v\n", err)
			os.Exit(2)
		}
	}
	return cs
}

func (eng *Engine) contractFor(f *types.Func) (*FuncContract, *ContractSet) {
	f = f.Origin()
	if f.Pkg() == nil || !eng.isRepoPkg(f.Pkg().Path()) {
		return nil, nil
	}
	cs := eng.contractsOf(f.Pkg().Path())
	if ct, ok := cs.Funcs[calleeKey(f)]; ok {
		return ct, cs
	}
	return nil, nil
}

func (eng *Engine) noteFuncLit(u *Unit, fl *ast.FuncLit) {
	if _, ok := eng.funcLits[fl]; !ok {
		eng.funcLits[fl] = u
		u.funcLits = append(u.funcLits, fl)
	}
}

func (eng *Engine) constOf(e ast.Expr) (*big.Int, bool) {
	for _, p := range eng.pkgs {
		if tv, ok := p.TypesInfo.Types[e]; ok && tv.Value != nil && tv.Value.Kind() == constant.Int {
			bi, ok := new(big.Int).SetString(tv.Value.ExactString(), 10)
			return bi, ok
		}
	}
	return nil, false
}

// immutableGlobal: package-level variable with an initialiser that is never assigned or address-taken in its package.
func (eng *Engine) immutableGlobal(v *types.Var) bool {
	if v.Pkg() == nil {
		return false
	}
	p, ok := eng.pkgs[v.Pkg().Path()]
	if !ok && eng.isRepoPkg(v.Pkg().Path()) {
		// a package variable of an imported repository package: load that package to analyse it
		rel := strings.TrimPrefix(strings.TrimPrefix(v.Pkg().Path(), repoMod), "/")
		if rel == "" {
			rel = "."
		}
		if err := eng.load(rel); err == nil {
			p, ok = eng.pkgs[v.Pkg().Path()]
		}
	}
	if !ok {
		return false
	}
	// the importer sees a different *types.Var object than the package's own type-check: go by name
	if own, isVar := p.Types.Scope().Lookup(v.Name()).(*types.Var); isVar && own != v {
		r := eng.immutableGlobal(own)
		if init, has := eng.inits[own]; has {
			eng.inits[v] = init
		}
		return r
	}
	m, ok := eng.assigned[p.PkgPath]
	if !ok {
		m = map[*types.Var]bool{}
		eng.assigned[p.PkgPath] = m
		for _, f := range p.Syntax {
			ast.Inspect(f, func(n ast.Node) bool {
				mark := func(e ast.Expr) {
					for {
						switch x := ast.Unparen(e).(type) {
						case *ast.Ident:
							if gv, ok := p.TypesInfo.Uses[x].(*types.Var); ok {
								m[gv] = true
							}
							return
						case *ast.IndexExpr:
							e = x.X
						case *ast.SelectorExpr:
							e = x.X
						case *ast.SliceExpr:
							e = x.X
						default:
							return
						}
					}
				}
				switch n := n.(type) {
				case *ast.AssignStmt:
					for _, l := range n.Lhs {
						mark(l)
					}
				case *ast.IncDecStmt:
					mark(n.X)
				case *ast.UnaryExpr:
					if n.Op == token.AND {
						mark(n.X)
					}
				case *ast.GenDecl:
					if n.Tok == token.VAR {
						for _, sp := range n.Specs {
							vs := sp.(*ast.ValueSpec)
							for i, nm := range vs.Names {
								if gv, ok := p.TypesInfo.Defs[nm].(*types.Var); ok && i < len(vs.Values) {
									eng.inits[gv] = vs.Values[i]
								}
							}
						}
					}
				}
				return true
			})
		}
	}
	_, hasInit := eng.inits[v]
	return hasInit && !m[v]
}

func (eng *Engine) globalInit(v *types.Var) ast.Expr { return eng.inits[v] }

func printNode(w io.Writer, fset *token.FileSet, n ast.Node) error {
	var b bytes.Buffer
	if err := printer.Fprint(&b, fset, n); err != nil {
		return err
	}
	_, err := w.Write(b.Bytes())
	return err
}

// findFunc locates a function declaration by contract key in a loaded package.
func (eng *Engine) findFunc(p *packages.Package, key string) (*ast.FuncDecl, *types.Func) {
	for _, f := range p.Syntax {
		for _, d := range f.Decls {
			fd, ok := d.(*ast.FuncDecl)
			if !ok {
				continue
			}
			obj, ok := p.TypesInfo.Defs[fd.Name].(*types.Func)
			if !ok {
				continue
			}
			if calleeKey(obj) == key {
				return fd, obj
			}
		}
	}
	return nil, nil
}

// UnitResult summarises one verified function.
type UnitResult struct {
	Pkg, Key        string
	Mode            string
	Obls            []*Obligation
	Abstracted      []string
	Unsupported     string
	SpecErrors      []string
	Precise         bool
	Contracted      bool
	MissingLoops    []int
	External        []string
	CalledContracts []string
	UsedLemmas      []string
	HavocAll        bool
	Ctx             *Ctx
	unit            *Unit
}

// finalFields: for a named struct type of a repository package, the indices of the fields declared `final` in that
// package's contract files and VALIDATED: the declaring package assigns them (or takes their address) only inside the
// listed constructor functions; composite literals are always allowed. Fields that fail the check are reported once and
// not treated as final.
func (eng *Engine) finalFields(nm *types.Named) []int {
	if nm == nil || nm.Obj().Pkg() == nil || !eng.isRepoPkg(nm.Obj().Pkg().Path()) {
		return nil
	}
	key := nm.Obj().Pkg().Path() + "." + nm.Obj().Name()
	if eng.finalCache == nil {
		eng.finalCache = map[string][]int{}
	}
	if v, ok := eng.finalCache[key]; ok {
		return v
	}
	var out []int
	eng.finalCache[key] = nil
	st, ok := nm.Underlying().(*types.Struct)
	p := eng.pkgs[nm.Obj().Pkg().Path()]
	if !ok || p == nil {
		return nil
	}
	cs := eng.contractsOf(nm.Obj().Pkg().Path())
	for _, fd := range cs.Finals {
		if fd.Type != nm.Obj().Name() {
			continue
		}
		allowed := map[string]bool{}
		for _, f := range fd.In {
			allowed[f] = true
		}
		for _, fname := range fd.Fields {
			idx := -1
			for i := 0; i < st.NumFields(); i++ {
				if st.Field(i).Name() == fname {
					idx = i
				}
			}
			if idx < 0 {
				fmt.Fprintf(os.Stderr, "vcgo: final %s.%s: no such field\n", fd.Type, fname)
				continue
			}
			fv := st.Field(idx)
			bad := ""
			for _, f := range p.Syntax {
				for _, d := range f.Decls {
					fdecl, ok := d.(*ast.FuncDecl)
					if !ok || fdecl.Body == nil {
						continue
					}
					if obj, ok := p.TypesInfo.Defs[fdecl.Name].(*types.Func); ok && allowed[calleeKey(obj)] {
						continue
					}
					isField := func(e ast.Expr) bool {
						se, ok := ast.Unparen(e).(*ast.SelectorExpr)
						if !ok {
							return false
						}
						sel := p.TypesInfo.Selections[se]
						return sel != nil && sel.Obj() == fv
					}
					ast.Inspect(fdecl.Body, func(n ast.Node) bool {
						switch x := n.(type) {
						case *ast.AssignStmt:
							for _, l := range x.Lhs {
								if isField(l) {
									bad = eng.fset.Position(l.Pos()).String()
								}
							}
						case *ast.IncDecStmt:
							if isField(x.X) {
								bad = eng.fset.Position(x.Pos()).String()
							}
						case *ast.UnaryExpr:
							if x.Op == token.AND && isField(x.X) {
								bad = eng.fset.Position(x.Pos()).String()
							}
						}
						return true
					})
				}
			}
			if bad != "" {
				fmt.Fprintf(os.Stderr, "vcgo: final %s.%s rejected: assigned or address-taken at %s outside the listed constructors\n", fd.Type, fname, bad)
				continue
			}
			if fv.Exported() {
				// other repository packages could assign an exported field: accepted, listed as an assumption
				cs.Scan["final field exported (assumed not assigned by other packages)"]++
			}
			out = append(out, idx)
		}
	}
	eng.finalCache[key] = out
	return out
}

// allFuncKeys: the keys of every function with a body declared in non-test files of p, in source order.
func (eng *Engine) allFuncKeys(p *packages.Package) []string {
	var keys []string
	for _, f := range p.Syntax {
		name := eng.fset.Position(f.Pos()).Filename
		if strings.HasSuffix(name, "_test.go") {
			continue
		}
		for _, d := range f.Decls {
			if fd, ok := d.(*ast.FuncDecl); ok && fd.Body != nil {
				if obj, ok := p.TypesInfo.Defs[fd.Name].(*types.Func); ok {
					keys = append(keys, calleeKey(obj))
				}
			}
		}
	}
	return keys
}

// shortName: the package name used in obligation names; `deprecated/X` is called deprecated_X when a package X also
// exists at the top level (two packages are named bucketteer).
func (eng *Engine) shortName(p *packages.Package) string {
	rel := strings.TrimPrefix(strings.TrimPrefix(p.PkgPath, repoMod), "/")
	if strings.HasPrefix(rel, "deprecated/") {
		x := strings.TrimPrefix(rel, "deprecated/")
		if fi, err := os.Stat(filepath.Join(repoDir, x)); err == nil && fi.IsDir() {
			return "deprecated_" + strings.ReplaceAll(x, "/", "_")
		}
	}
	return p.Types.Name()
}

// verifyFunc generates the obligations of one function.
func (eng *Engine) verifyFunc(p *packages.Package, key string, safetyOnly bool) (*UnitResult, error) {
	fd, obj := eng.findFunc(p, key)
	if fd == nil {
		return nil, fmt.Errorf("contract anchor missing: function %s not found in %s", key, p.PkgPath)
	}
	cs := eng.contractsOf(p.PkgPath)
	ct := cs.Funcs[key]
	mode := "int"
	if ct != nil {
		mode = ct.Mode
	}
	u := &Unit{eng: eng, pkg: p, info: p.TypesInfo, fset: eng.fset, pkgName: eng.shortName(p), key: key, decl: fd, obj: obj,
		sig: obj.Type().(*types.Signature), c: newCtx(mode == "bv", p.Types), ct: ct, cs: cs, nameCount: map[string]int{},
		paramSyms: map[string]string{}, unfolded: map[string]bool{}, exprCount: map[string]int{}, calledContracts: map[string]bool{},
		usedLemmas: map[string]bool{}, externalCalls: map[string]bool{}, loopsSeen: map[int]bool{}, sliceDefs: map[string]string{}, lenHints: map[string]int64{}, rangeVars: map[int]*types.Var{}, visitedVars: map[int]*types.Var{},
		entryVals: map[*types.Var]Term{}}
	res := &UnitResult{Pkg: eng.shortName(p), Key: key, Mode: mode, Contracted: ct != nil, Ctx: u.c, unit: u}
	if fd.Body == nil {
		return nil, fmt.Errorf("function %s has no body", key)
	}
	if ct != nil && ct.Trusted {
		res.Unsupported = "trusted contract (body not verified)"
		return res, nil
	}
	func() {
		defer func() {
			if r := recover(); r != nil {
				if up, ok := r.(unsupportedPanic); ok {
					res.Unsupported = up.msg
					return
				}
				panic(r)
			}
		}()
		u.run()
	}()
	// escaping function literals (goroutine bodies, callbacks, job closures): each body is executed on its own from an
	// arbitrary state (captured variables, parameters and every heap unknown); its obligations are named
	// <func>$lit<k>/<kind> and carry the group prefix "lit:" (claimed separately from the enclosing function's groups)
	if res.Unsupported == "" {
		for k := 0; k < len(u.funcLits) && k < 64; k++ {
			fl := u.funcLits[k]
			func() {
				defer func() {
					if r := recover(); r != nil {
						if up, ok := r.(unsupportedPanic); ok {
							u.c.note("function literal #%d not verified: %s", k, up.msg)
							return
						}
						// an engine failure inside a literal must not take the enclosing function's obligations down
						u.c.note("function literal #%d at %s not verified: internal error %v", k, u.fset.Position(fl.Pos()), r)
						if os.Getenv("VCGO_DEBUG") != "" {
							fmt.Fprintf(os.Stderr, "%s\n", debug.Stack())
						}
						u.inlineStack, u.loopStack, u.litGroup = nil, nil, false
						u.key = key
						return
					}
				}()
				u.runLit(fl, k)
			}()
		}
	}
	// a `lit K ensures` clause whose literal no longer exists (or no longer escapes) would otherwise generate nothing: report
	// the contract as undecided instead of passing silently
	if u.ct != nil {
		for _, bk := range sortedIntKeys(u.ct.LitEnsures) {
			if !u.litChecked[bk] {
				u.specErrors = append(u.specErrors, fmt.Sprintf("lit %d ensures: no escaping function literal #%d is verified in this function (removed, inlined or not reached by the engine)", bk, bk))
			}
		}
	}
	res.Obls = u.obls
	res.Abstracted = u.c.abstr
	res.SpecErrors = u.specErrors
	res.Precise = !u.abstracted
	res.HavocAll = u.havocAll
	res.External = sortedKeys(u.externalCalls)
	res.CalledContracts = sortedKeys(u.calledContracts)
	res.UsedLemmas = sortedKeys(u.usedLemmas)
	if ct != nil {
		for n, lc := range ct.Loops {
			if !u.loopsSeen[n] {
				// invariants / variants / use-hints are means of proof: if the loop they were written for is gone (replaced by a
				// library call, unrolled, ...) and the function's own obligations are still discharged, nothing is lost.
				// entry / step / returns / exit clauses are obligations in their own right: their loop must exist.
				if len(lc.Entry) == 0 && len(lc.Steps) == 0 && len(lc.Returns) == 0 && len(lc.Exits) == 0 {
					u.c.note("loop %d of the contract has no counterpart in the code any more; it only carried invariants (proof hints), which are dropped", n)
					continue
				}
				res.MissingLoops = append(res.MissingLoops, n)
			}
		}
		res.Abstracted = u.c.abstr
	}
	for _, o := range res.Obls {
		o.Precise = res.Precise
	}
	return res, nil
}

// runLit executes the body of an escaping function literal from an arbitrary state.
func (u *Unit) runLit(fl *ast.FuncLit, k int) {
	if u.inlineLit[fl] {
		return // executed in place at its call sites
	}
	sig, _ := u.typeOf(fl).(*types.Signature)
	if sig == nil {
		return
	}
	savedKey, savedLit := u.key, u.litGroup
	bk := k
	if u.ct != nil && len(u.ct.LitEnsures) > 0 {
		// clauses and obligation names follow the literal the contract was written for (baseline bindings)
		if b := u.baseLit(k); b >= 0 {
			bk = b
		} else {
			bk = 1000 + k
		}
	}
	u.key = fmt.Sprintf("%s$lit%d", savedKey, bk)
	u.litGroup = true
	defer func() { u.key, u.litGroup = savedKey, savedLit }()
	st := &State{vars: map[*types.Var]Term{}, heaps: map[string]string{}, ghost: map[string]string{}, tainted: map[string]bool{}}
	st.alloc = u.c.fresh("alloc", "Int")
	st.assume("(>= " + st.alloc + " alloc@0)")
	u.hvCounter++
	st.hvgen = u.hvCounter
	st.unk = true
	for _, f := range fl.Type.Params.List {
		for _, n := range f.Names {
			if v, ok := u.info.Defs[n].(*types.Var); ok {
				u.declareVar(st, v, u.freshOf(st, v.Type(), v.Name()))
			}
		}
	}
	fr := &inlineFrame{}
	if fl.Type.Results != nil {
		idx := 0
		for _, f := range fl.Type.Results.List {
			names := f.Names
			if len(names) == 0 {
				names = []*ast.Ident{nil}
			}
			for _, n := range names {
				var rv *types.Var
				if n != nil {
					rv, _ = u.info.Defs[n].(*types.Var)
				}
				if rv == nil {
					rv = types.NewVar(fl.Pos(), u.pkg.Types, fmt.Sprintf("escret%d_%d", k, idx), sig.Results().At(idx).Type())
				}
				fr.results = append(fr.results, rv)
				u.declareVar(st, rv, u.zeroOf(rv.Type()))
				idx++
			}
		}
	}
	savedStack, savedLoops := u.inlineStack, u.loopStack
	u.inlineStack = []*inlineFrame{fr}
	u.loopStack = nil
	end := u.execBlock(st, fl.Body.List)
	if end != nil && sig.Results().Len() == 0 {
		u.runInlineDefers(end, fr)
	}
	u.inlineStack, u.loopStack = savedStack, savedLoops
	// `lit K ensures`: obligations at every return of the literal (result0.. = the returned values; locals of the literal by name)
	if u.ct != nil && len(u.ct.LitEnsures[bk]) > 0 {
		if u.litChecked == nil {
			u.litChecked = map[int]bool{}
		}
		u.litChecked[bk] = true
		rets := append([]*State{}, fr.rets...)
		if end != nil && sig.Results().Len() == 0 {
			rets = append(rets, end)
		}
		for _, rs := range rets {
			names := map[string]Term{}
			for i, rv := range fr.results {
				t := u.readVar(rs, rv, token.NoPos)
				names[fmt.Sprintf("result%d", i)] = t
				if i == 0 {
					names["result"] = t
				}
			}
			env := &SpecEnv{u: u, st: rs, old: st, names: names, cs: u.cs, pkg: u.pkg.Types, own: true, scopePos: fl.Body.Rbrace, loopInv: true}
			for i, cl := range u.ct.LitEnsures[bk] {
				nerr := len(u.specErrors)
				env.outOfScope = false
				g := env.evalBool(cl.Expr)
				if env.outOfScope {
					u.specErrors = u.specErrors[:nerr]
					continue
				}
				u.emit(rs, "post", fmt.Sprintf("post#%d", i), fmt.Sprintf("function literal #%d ensures %s", bk, cl.Text), fl.Body.Rbrace, g)
			}
		}
	}
}

// run executes the function body symbolically.
func (u *Unit) run() {
	c := u.c
	st := &State{vars: map[*types.Var]Term{}, heaps: map[string]string{}, ghost: map[string]string{}, tainted: map[string]bool{}}
	c.declareFun("alloc@0", "() Int")
	st.alloc = "alloc@0"
	st.assume("(>= alloc@0 1)")
	u.prescan(u.decl.Body)
	u.bodyPos = u.decl.Body.Lbrace + 1
	u.endPos = u.decl.Body.Rbrace
	// parameters
	bind := func(v *types.Var) {
		if v == nil || v.Name() == "_" || v.Name() == "" {
			return
		}
		name := "p_" + sanitize(v.Name())
		c.declareFun(name, "() "+c.sortOf(v.Type()))
		t := Term{S: name, T: v.Type()}
		u.assumeRange(st, t)
		u.paramSyms[v.Name()] = name
		u.entryVals[v] = t
		if u.boxed[v] {
			u.declareVar(st, v, t)
		} else {
			st.vars[v] = t
		}
	}
	bind(u.sig.Recv())
	if rv := u.sig.Recv(); rv != nil && rv.Name() != "" && rv.Name() != "_" {
		if _, isPtr := rv.Type().Underlying().(*types.Pointer); isPtr {
			// methods are verified for non-nil receivers; call sites carry the matching obligation
			st.assume(not(eq(u.entryVals[rv].S, "0")))
		}
	}
	for i := 0; i < u.sig.Params().Len(); i++ {
		bind(u.sig.Params().At(i))
	}
	for i := 0; i < u.sig.Results().Len(); i++ {
		rv := u.sig.Results().At(i)
		if rv.Name() == "" || rv.Name() == "_" {
			rv = types.NewVar(rv.Pos(), u.pkg.Types, fmt.Sprintf("ret%d", i), rv.Type())
		}
		u.results = append(u.results, rv)
		u.declareVar(st, rv, u.zeroOf(rv.Type()))
	}
	// call counters (`called(f)` in the contract): name the ghost heap now, so that it is the entry version
	u.initCounted()
	if len(u.counted) > 0 {
		u.heapRead(st, u.ghostHeap("called"))
	}
	// entry snapshot (before requires are assumed, heaps are initial)
	u.entry = st.clone()
	if u.ct != nil {
		for _, cl := range append(append([]Clause{}, u.ct.Requires...), u.ct.Ensures...) {
			if strings.Contains(cl.Text, "held(") {
				u.mentionsHeld = true
			}
		}
		env := &SpecEnv{u: u, st: st, old: u.entry, names: map[string]Term{}, cs: u.cs, pkg: u.pkg.Types, own: true, scopePos: u.bodyPos}
		for _, r := range u.ct.Requires {
			st.assume(env.evalBool(r.Expr))
		}
		for _, us := range u.ct.Uses {
			st.assume(env.useClause(us))
		}
		u.entry = st.clone()
		// vacuity: the precondition must be satisfiable
		u.emitExpect(st, "canary", "requires-sat", "precondition is satisfiable", u.decl.Pos(), "false", "sat")
	}
	end := u.execBlock(st, u.decl.Body.List)
	if end != nil {
		if u.sig.Results().Len() > 0 {
			// falling off the end of a function with results cannot happen in compiled code
		} else {
			u.finishReturn(end, nil)
		}
	}
}

func (u *Unit) sortedHeapNames() []string { return sortedKeys(u.c.heapNames) }

func sortedIntKeys[V any](m map[int]V) []int {
	var ks []int
	for k := range m {
		ks = append(ks, k)
	}
	sort.Ints(ks)
	return ks
}
