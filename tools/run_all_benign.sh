#!/bin/bash
# Maintenance tool: applies every behaviour-preserving patch benign/*.diff to a scratch copy of /repo, runs the quick check of
# every property with a unit in a touched package, and writes benign/RESULTS.md. Any alarm listed there is a FALSE alarm.
cd /verif
OUT=benign/RESULTS.md
TMP=/var/tmp/benign-all.log
tools/run_benign.sh /verif/benign/*.diff > $TMP 2>&1
python3 - "$TMP" "$OUT" <<'PY'
import sys, collections, re
runs = collections.OrderedDict()
for l in open(sys.argv[1]):
    m = re.match(r'^(\S+) (C\d+) exit=(\d+) (\d+) alarms:\s*(.*)$', l.strip())
    if m:
        runs.setdefault(m.group(1), []).append((m.group(2), int(m.group(3)), int(m.group(4)), m.group(5)))
desc = {}
for l in open('/verif/benign/DESCRIPTIONS.txt'):
    p = [x.strip() for x in l.split('|')]
    if len(p) >= 3:
        desc[p[0].replace('.diff', '')] = (p[1], p[2])
tot = sum(len(v) for v in runs.values())
bad_runs = sum(1 for v in runs.values() for r in v if r[1] != 0)
bad_patches = sum(1 for v in runs.values() if any(r[1] != 0 for r in v))
o = open(sys.argv[2], 'w')
o.write("# Behaviour-preserving patches vs. the checks\n\n%d patches, %d check runs, %d runs with an alarm (%d patches).\n\n" % (len(runs), tot, bad_runs, bad_patches))
o.write("| patch | function(s) | kind | checks run | alarms |\n|---|---|---|---|---|\n")
for name, v in runs.items():
    d = desc.get(name, ('', ''))
    al = '; '.join('%s: %s' % (r[0], r[3].split(';')[0][:110]) for r in v if r[1] != 0) or '-'
    o.write("| %s | %s | %s | %s | %s |\n" % (name, d[0][:90], d[1][:60], ' '.join(r[0] for r in v), al))
print("benign: %d patches, %d runs, %d alarms in %d patches" % (len(runs), tot, bad_runs, bad_patches))
PY
