#!/bin/bash
# usage: run_benign.sh <patch.diff>...   applies each behaviour-preserving patch to a scratch copy of /repo and runs the quick
# checks of every property that has a unit in a touched package. Any VIOLATION here is a false alarm. (maintenance tool)
set -u
for PATCH in "$@"; do
  NAME=$(basename $PATCH .diff)
  SC=/var/tmp/benign-sc-$NAME
  rm -rf $SC && cp -r /repo $SC && (cd $SC && git apply $PATCH) || { echo "$NAME PATCH-DOES-NOT-APPLY"; rm -rf $SC; continue; }
  for P in $(/verif/tools/props_for_patch.py $PATCH); do
    VERIF_REPO=$SC /verif/bin/vcgo check $P > /var/tmp/benign-$NAME-$P.log 2>&1
    rc=$?
    rm -rf /verif/out/$P@$(basename $SC) /verif/out/replaytmp@$(basename $SC)
    echo "$NAME $P exit=$rc $(grep -c '^VIOLATION' /var/tmp/benign-$NAME-$P.log) alarms: $(grep '^VIOLATION' /var/tmp/benign-$NAME-$P.log | head -3 | sed 's/.*obligation=//' | cut -c1-160 | tr '\n' ';')"
  done
  rm -rf $SC
done
