#!/usr/bin/env python3
"""Rebuilds the "Status after the build round" part of DESIGN.md from docs/status_section.md (hand-written S1-S6),
seeded/RESULTS.md + seeded/*/meta.json (table of S5) and props/*.json + evidence/*.json (S7). Maintenance tool."""
import json, re, glob, os

V = '/verif'
rows = []
for l in open(V + '/seeded/RESULTS.md'):
    if l.startswith('| C'):
        c = [x.strip() for x in l.strip().strip('|').split('|')]
        name, prop, check, ex, obs = c[0], c[1], c[2], c[3], '|'.join(c[4:])
        meta = json.load(open('%s/seeded/%s/meta.json' % (V, name)))
        first = obs.split(';')[0].replace(' no-failing-input-found', '').replace(' no-failing-input-f', '')
        first = re.sub(r'\[[^\]]{40,}\]', '[…]', first)
        rows.append((name, prop, meta['files'][0], meta['needs'], check, 'caught' if ex == '1' else 'MISSED', first))
tab = "| change (seeded/…) | file | needs, to manifest | check | result | first failing obligation |\n|---|---|---|---|---|---|\n"
for r in rows:
    tab += "| %s | %s | %s | %s | %s | `%s` |\n" % (r[0], r[2], r[3][:230], r[4], r[5], r[6][:150])
sec = open(V + '/docs/status_section.md').read().replace('@@SEEDED_TABLE@@', tab)
ben = ''
if os.path.exists(V + '/benign/RESULTS.md'):
    lines = open(V + '/benign/RESULTS.md').read().splitlines()
    summ = [l for l in lines if 'patches,' in l and 'check runs' in l]
    bad = [l for l in lines if l.startswith('| ') and not l.rstrip().endswith('| - |') and not l.startswith('| patch') and not l.startswith('|---')]
    ben = "Final state (`tools/run_all_benign.sh`, table in `benign/RESULTS.md`): " + (summ[0] if summ else '') + "\n\n"
    if bad:
        ben += "Patches that still raise an alarm (each is a loop that carries an invariant moved into a new helper with renamed variables or an edited header — see the limits below):\n\n| patch | function(s) | kind | checks run | alarms |\n|---|---|---|---|---|\n" + "\n".join(bad) + "\n"
sec = sec.replace('@@BENIGN_RESULTS@@', ben)

props = {}
for l in open(V + '/properties.jsonl'):
    p = json.loads(l)
    props[p['id']] = p
out = "### S7. Per-property status (generated from props/*.json and the evidence of the last clean run)\n\n"
out += "| id | property | functions under contract | obligations claimed (quick) | thorough-only | unclaimed by name | quick wall |\n|---|---|---|---|---|---|---|\n"
det = ""
for pid in sorted(props):
    sp = json.load(open('%s/props/%s.json' % (V, pid)))
    ev = json.load(open('%s/evidence/%s.json' % (V, pid)))
    c = ev['coverage']
    out += "| %s | %s | %d | %d | %d | %d | %.0f s |\n" % (pid, props[pid]['title'], len(c['functions']), c['obligations'],
                                                       len(c.get('thorough_tier_only') or []), len(c.get('unclaimed_by_name') or []), ev['wall_s'])
    det += "**%s — %s.** %s\n\n*Not decided:* %s\n\n" % (pid, props[pid]['title'], sp['explanation'].strip(), '; '.join(sp.get('not_decided') or ['-']))
out += ("\nQuick-tier obligations are those discharged on every change; `thorough-only` obligations (slow or seed-sensitive in the\n"
        "solver: they needed a retry or > 6 s under one of three seeds) are claimed by `--tier thorough` (60 s budget, retries up to\n"
        "540 s). A quick run therefore establishes the quick obligations under the hypothesis that the thorough-only invariants hold;\n"
        "the thorough run discharges everything. `unclaimed by name` obligations are generated and listed but never counted.\n\n")
out += det

d = open(V + '/DESIGN.md').read()
marker = "## 0. What this family can and cannot reach here"
start = d.index('## Status after the build round') if '## Status after the build round' in d else d.index(marker)
d = d[:start] + sec + "\n" + out + d[d.index(marker):]
open(V + '/DESIGN.md', 'w').write(d)
print("DESIGN.md status section rebuilt:", len(rows), "seeded changes,", len(props), "properties")
