package main

import (
	"fmt"
	"go/ast"
	"go/token"
	"go/types"
	"path/filepath"
	"strings"
)

// lemmaUnits builds proof obligations for every lemma of the named theory files (and lemmas in
// package contract files are handled by lemmaUnitsOf).
func (eng *Engine) lemmaUnits(theories []string) []*UnitResult {
	var out []*UnitResult
	want := map[string]bool{}
	for _, t := range theories {
		want[t] = true
	}
	for i, name := range eng.theories.LemmaSeq {
		lm := eng.theories.Lemmas[name]
		base := strings.TrimSuffix(filepath.Base(lm.File), ".vcl")
		if !want[base] {
			continue
		}
		out = append(out, eng.proveLemma(eng.theories, lm, eng.theories.LemmaSeq[:i]))
	}
	return out
}

// lemmaUnitsOf: lemmas declared in a package's contract files are proved whenever a unit of that package is checked.
func (eng *Engine) lemmaUnitsOf(pkgPath string) []*UnitResult {
	cs := eng.contractsOf(pkgPath)
	var out []*UnitResult
	for i, name := range cs.LemmaSeq {
		owner := "lemma"
		if p, ok := eng.pkgs[pkgPath]; ok {
			owner = "lemma_" + eng.shortName(p)
		}
		r := eng.proveLemma(cs, cs.Lemmas[name], cs.LemmaSeq[:i], owner)
		r.Pkg = owner
		out = append(out, r)
	}
	return out
}

func (eng *Engine) proveLemma(cs *ContractSet, lm *Lemma, earlier []string, owner ...string) *UnitResult {
	pkgName := "theory"
	if len(owner) > 0 {
		pkgName = owner[0]
	}
	u := &Unit{eng: eng, fset: eng.fset, pkgName: pkgName, key: lm.Name, c: newCtx(false, nil), cs: cs, nameCount: map[string]int{},
		paramSyms: map[string]string{}, unfolded: map[string]bool{}, exprCount: map[string]int{}, calledContracts: map[string]bool{},
		usedLemmas: map[string]bool{}, externalCalls: map[string]bool{}, loopsSeen: map[int]bool{}, sliceDefs: map[string]string{}, lenHints: map[string]int64{}, rangeVars: map[int]*types.Var{}, visitedVars: map[int]*types.Var{},
		entryVals: map[*types.Var]Term{}}
	res := &UnitResult{Pkg: "theory", Key: lm.Name, Mode: "int", Contracted: true, Ctx: u.c, Precise: true}
	st := &State{vars: map[*types.Var]Term{}, heaps: map[string]string{}, ghost: map[string]string{}, tainted: map[string]bool{}}
	u.c.declareFun("alloc@0", "() Int")
	st.alloc = "alloc@0"
	names := map[string]Term{}
	env := &SpecEnv{u: u, st: st, old: nil, names: names, cs: cs}
	for _, p := range lm.Params {
		s, pt := env.specSort(p.Type)
		name := "p_" + sanitize(p.Name)
		u.c.declareFun(name, "() "+s)
		names[p.Name] = Term{S: name, T: pt}
	}
	allowed := map[string]bool{}
	for _, e := range earlier {
		allowed[e] = true
	}
	if cs != eng.theories {
		for _, n := range eng.theories.LemmaSeq {
			allowed[n] = true
		}
	}
	for _, r := range lm.Requires {
		st.assume(env.evalBool(r.Expr))
	}
	// cited lemmas must be proved earlier (no circularity)
	for _, us := range lm.Uses {
		ok := true
		ast.Inspect(us.Expr, func(n ast.Node) bool {
			if c, isCall := n.(*ast.CallExpr); isCall {
				if id, isId := c.Fun.(*ast.Ident); isId {
					if env.lemma(id.Name) != nil && !allowed[id.Name] {
						ok = false
					}
				}
			}
			return true
		})
		if !ok {
			u.specErrors = append(u.specErrors, fmt.Sprintf("lemma %s cites a lemma that is not proved earlier: %s", lm.Name, us.Text))
			continue
		}
		st.assume(env.useClause(us))
	}
	// induction hypotheses, guarded by the measure
	if len(lm.Induct) > 0 {
		if lm.Decreases == nil {
			u.specErrors = append(u.specErrors, fmt.Sprintf("lemma %s has induct clauses but no decreases", lm.Name))
		} else {
			m0 := env.eval(lm.Decreases.Expr).S
			for _, in := range lm.Induct {
				call, ok := ast.Unparen(in.Expr).(*ast.CallExpr)
				var id *ast.Ident
				if ok {
					id, ok = call.Fun.(*ast.Ident)
				}
				if !ok || id.Name != lm.Name || len(call.Args) != len(lm.Params) {
					u.specErrors = append(u.specErrors, fmt.Sprintf("lemma %s: induct clause must be %s(args)", lm.Name, lm.Name))
					continue
				}
				nb := map[string]Term{}
				for i, p := range lm.Params {
					t := env.eval(call.Args[i])
					_, pt := env.specSort(p.Type)
					nb[p.Name] = u.coerceSpec(t, pt)
				}
				sub := &SpecEnv{u: u, st: st, names: map[string]Term{}, cs: cs, bound: nb}
				m1 := sub.eval(lm.Decreases.Expr).S
				var req, ens []string
				for _, r := range lm.Requires {
					req = append(req, sub.evalBool(r.Expr))
				}
				for _, r := range lm.Ensures {
					ens = append(ens, sub.evalBool(r.Expr))
				}
				guard := and("(<= 0 "+m1+")", "(< "+m1+" "+m0+")")
				st.assume(implies(guard, implies(and(req...), and(ens...))))
			}
		}
	}
	u.emitExpect(st, "canary", "requires-sat", "lemma hypotheses are satisfiable", token.NoPos, "false", "sat")
	for i, en := range lm.Ensures {
		ob := u.emit(st, "lemma", fmt.Sprintf("lemma#%d", i), "lemma "+lm.Name+": "+en.Text, token.NoPos, env.evalBool(en.Expr))
		ob.Pos.Filename = lm.File
		ob.Pos.Line = en.Line
	}
	res.Obls = u.obls
	res.SpecErrors = u.specErrors
	res.UsedLemmas = sortedKeys(u.usedLemmas)
	return res
}
