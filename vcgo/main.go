package main

import (
	"context"
	"encoding/json"
	"flag"
	"fmt"
	"go/ast"
	"go/types"
	"os"
	"path/filepath"
	"sort"
	"strconv"
	"strings"
	"time"
)

type PropUnit struct {
	Pkg       string   `json:"pkg"`
	Func      string   `json:"func"`
	Groups    []string `json:"groups,omitempty"`    // claimed obligation groups (default: all)
	Tier      string   `json:"tier,omitempty"`      // "thorough": the unit is checked only by the thorough tier (slow obligations)
	Slow      []string `json:"slow,omitempty"`      // obligation-name patterns claimed only by the thorough tier (slow / seed-sensitive in the solver)
	Claim     []string `json:"claim,omitempty"`     // obligation-name substrings claimed in addition to the groups
	Unclaimed []string `json:"unclaimed,omitempty"` // obligation-name substrings not claimed (with reason in Why)
	Why       string   `json:"why,omitempty"`
	MinObls   int      `json:"min_obligations,omitempty"`
	Note      string   `json:"note,omitempty"`
}

type PropSpec struct {
	ID          string     `json:"id"`
	Level       string     `json:"level"`
	Units       []PropUnit `json:"units"`
	Theories    []string   `json:"theories,omitempty"`
	Assumptions []string   `json:"assumptions"`
	Trusted     []string   `json:"trusted_base"`
	Explanation string     `json:"explanation"`
	NotDecided  []string   `json:"not_decided,omitempty"`
}

type Finding struct {
	Kind       string // finding | fixed
	Property   string
	Obligation string
	Rest       string
	Line       string
}

func loadFindings(path string) []Finding {
	data, err := os.ReadFile(path)
	if err != nil {
		return nil
	}
	var fs []Finding
	for _, l := range strings.Split(string(data), "\n") {
		t := strings.TrimSpace(l)
		if t == "" || strings.HasPrefix(t, "#") {
			continue
		}
		var f Finding
		switch {
		case strings.HasPrefix(t, "finding:"):
			f.Kind = "finding"
			t = strings.TrimSpace(t[len("finding:"):])
		case strings.HasPrefix(t, "fixed:"):
			f.Kind = "fixed"
			t = strings.TrimSpace(t[len("fixed:"):])
		default:
			continue
		}
		f.Line = t
		for _, w := range strings.Fields(t) {
			if strings.HasPrefix(w, "property=") {
				f.Property = w[len("property="):]
			}
			if strings.HasPrefix(w, "obligation=") {
				f.Obligation = w[len("obligation="):]
			}
		}
		fs = append(fs, f)
	}
	return fs
}

func main() {
	// `any` and other aliases are represented by their actual types (no *types.Alias nodes): heaps and type tags are
	// keyed by the spelled type, so []any and []interface{} must coincide
	os.Setenv("GODEBUG", "gotypesalias=0")
	if len(os.Args) < 2 {
		fmt.Fprintln(os.Stderr, "usage: vcgo check <PROP> [--tier quick|thorough] | vcgo dump <pkg> <func>")
		os.Exit(2)
	}
	switch os.Args[1] {
	case "check":
		os.Exit(cmdCheck(os.Args[2:]))
	case "bindings":
		os.Exit(cmdBindings(os.Args[2:]))
	case "dump":
		os.Exit(cmdDump(os.Args[2:]))
	default:
		fmt.Fprintln(os.Stderr, "unknown command")
		os.Exit(2)
	}
}

func verifDir() string {
	if d := os.Getenv("VERIF_DIR"); d != "" {
		return d
	}
	return "/verif"
}

func cmdDump(args []string) int {
	fs := flag.NewFlagSet("dump", flag.ExitOnError)
	budget := fs.Int("budget", 10000, "solver budget ms")
	showQ := fs.String("show", "", "print the query of obligations whose name contains this")
	onlyBad := fs.Bool("bad", false, "print only failed obligations")
	doReplay := fs.Bool("replay", false, "replay sat results against the real code")
	fs.Parse(args)
	rest := fs.Args()
	if len(rest) < 2 {
		fmt.Fprintln(os.Stderr, "usage: vcgo dump [--budget ms] [--show substr] <pkg> <func>...")
		return 2
	}
	eng := newEngine(verifDir())
	if err := eng.loadTheories(); err != nil {
		fmt.Fprintln(os.Stderr, err)
		return 2
	}
	if err := eng.load(rest[0]); err != nil {
		fmt.Fprintln(os.Stderr, err)
		return 2
	}
	ip := repoMod
	if rest[0] != "." {
		ip = repoMod + "/" + strings.TrimPrefix(rest[0], "./")
	}
	p := eng.pkgs[ip]
	out := filepath.Join(verifDir(), "out", "dump")
	keys := rest[1:]
	if len(keys) == 1 && keys[0] == "ALL" {
		keys = nil
		for _, f := range p.Syntax {
			for _, d := range f.Decls {
				if fd, ok := d.(*ast.FuncDecl); ok && fd.Body != nil {
					if obj, ok := p.TypesInfo.Defs[fd.Name].(*types.Func); ok {
						if strings.HasSuffix(eng.fset.Position(fd.Pos()).Filename, "_test.go") {
							continue
						}
						keys = append(keys, calleeKey(obj))
					}
				}
			}
		}
	}
	for _, key := range keys {
		if key == "LEMMAS" {
			for _, r := range eng.lemmaUnitsOf(ip) {
				var jobs []solveJob
				for _, o := range r.Obls {
					jobs = append(jobs, solveJob{o, r.Ctx})
				}
				discharge(jobs, out, *budget, 0, 16)
				fmt.Printf("== lemma %s\n", r.Key)
				for _, e := range r.SpecErrors {
					fmt.Println("   SPEC-ERROR:", e)
				}
				for _, o := range r.Obls {
					fmt.Printf("    %-8s %-7s %5.2fs %-8s %s %s\n", o.Group, o.Result, o.Seconds, o.Solver, o.Name, oneLine(o.Detail))
				}
			}
			continue
		}
		res, err := eng.verifyFunc(p, key, false)
		if err != nil {
			fmt.Println("ERROR", err)
			continue
		}
		var jobs []solveJob
		for _, o := range res.Obls {
			jobs = append(jobs, solveJob{o, res.Ctx})
		}
		discharge(jobs, out, *budget, 0, 16)
		fmt.Printf("== %s.%s mode=%s precise=%v unsupported=%q\n", res.Pkg, res.Key, res.Mode, res.Precise, res.Unsupported)
		for _, e := range res.SpecErrors {
			fmt.Println("   SPEC-ERROR:", e)
		}
		for _, a := range res.Abstracted {
			fmt.Println("   abstracted:", a)
		}
		for _, o := range res.Obls {
			mark := "  "
			if o.Result != o.Expect {
				mark = "!!"
			}
			if *onlyBad && (mark == "  " || o.Group == "canary") {
				continue
			}
			fmt.Printf(" %s %-8s %-7s %5.2fs %-8s %s  [%s:%d] %s\n", mark, o.Group, o.Result, o.Seconds, o.Solver, o.Name, shortPath(o.Pos.Filename), o.Pos.Line, oneLine(o.Detail))
			if *doReplay && o.Result == "sat" && o.Expect == "unsat" {
				ok, out := tryReplay(eng, res, o)
				fmt.Printf("      REPLAY confirmed=%v: %s\n", ok, strings.ReplaceAll(out, "\n", "\n        "))
			} else if *doReplay && o.Expect == "unsat" && o.Result != "unsat" && o.Group != "canary" {
				ok, out := relaxedReplay(eng, res, o)
				fmt.Printf("      RELAXED-REPLAY confirmed=%v: %s\n", ok, strings.ReplaceAll(out, "\n", "\n        "))
			}
			if *showQ != "" && strings.Contains(o.Name, *showQ) {
				fmt.Println(finalQuery(res.Ctx, o.Query))
				if o.Model != "" {
					fmt.Println("MODEL:", o.Model)
				}
			}
		}
	}
	return 0
}

func cmdCheck(args []string) int {
	fs := flag.NewFlagSet("check", flag.ExitOnError)
	tier := fs.String("tier", "", "quick|thorough")
	fs.Parse(reorder(args))
	rest := fs.Args()
	if len(rest) != 1 {
		fmt.Fprintln(os.Stderr, "usage: vcgo check <PROP> [--tier quick|thorough]")
		return 2
	}
	id := rest[0]
	if *tier == "" {
		*tier = os.Getenv("VERIF_TIER")
	}
	if *tier != "thorough" {
		*tier = "quick"
	}
	seed := 0
	if s := os.Getenv("VERIF_SEED"); s != "" {
		if v, err := strconv.Atoi(s); err == nil {
			seed = v
		}
	}
	return runCheck(id, *tier, seed)
}

// reorder moves flags before positional args so `check C04 --tier quick` works.
func reorder(args []string) []string {
	var flags, pos []string
	for i := 0; i < len(args); i++ {
		a := args[i]
		if strings.HasPrefix(a, "-") {
			flags = append(flags, a)
			if !strings.Contains(a, "=") && i+1 < len(args) {
				flags = append(flags, args[i+1])
				i++
			}
		} else {
			pos = append(pos, a)
		}
	}
	return append(flags, pos...)
}

type funcEvidence struct {
	Func        string   `json:"func"`
	Mode        string   `json:"mode"`
	Precise     bool     `json:"precise"`
	Obligations int      `json:"obligations"`
	Discharged  int      `json:"discharged"`
	Unclaimed   int      `json:"unclaimed"`
	Seconds     float64  `json:"solver_seconds"`
	Solvers     []string `json:"solvers"`
	Abstracted  []string `json:"abstracted,omitempty"`
	External    []string `json:"external_calls,omitempty"`
	Contracts   []string `json:"callee_contracts_used,omitempty"`
	Lemmas      []string `json:"lemmas_used,omitempty"`
}

func runCheck(id, tier string, seed int) int {
	t0 := time.Now()
	currentTier = tier
	vd := verifDir()
	data, err := os.ReadFile(filepath.Join(vd, "props", id+".json"))
	if err != nil {
		fmt.Fprintln(os.Stderr, "vcgo:", err)
		return 2
	}
	var spec PropSpec
	if err := json.Unmarshal(data, &spec); err != nil {
		fmt.Fprintln(os.Stderr, "vcgo: bad property spec:", err)
		return 2
	}
	findings := loadFindings(filepath.Join(vd, "known_findings.txt"))
	eng := newEngine(vd)
	if err := eng.loadTheories(); err != nil {
		fmt.Fprintln(os.Stderr, "vcgo:", err)
		return 2
	}
	pkgSet := map[string]bool{}
	var pkgList []string
	for _, u := range spec.Units {
		if !pkgSet[u.Pkg] {
			pkgSet[u.Pkg] = true
			pkgList = append(pkgList, u.Pkg)
		}
	}
	if err := eng.load(pkgList...); err != nil {
		fmt.Fprintln(os.Stderr, "vcgo: load:", err)
		return 2
	}
	budget := 10000
	if tier == "thorough" {
		budget = 60000
	}
	outDir := filepath.Join(vd, "out", id)
	if r := os.Getenv("VERIF_REPO"); r != "" {
		// a run against a scratch copy gets its own directory, so that it can run beside a check of /repo (or of another copy)
		outDir = filepath.Join(vd, "out", id+"@"+filepath.Base(r))
	}
	os.RemoveAll(outDir)
	os.MkdirAll(filepath.Join(outDir, "replay"), 0o755)

	broken := false
	var undecided []string
	var results []*UnitResult
	var jobs []solveJob
	unitOf := map[*UnitResult]PropUnit{}
	// lemmas of the requested theories
	lemmaRes := eng.lemmaUnits(spec.Theories)
	for _, r := range lemmaRes {
		results = append(results, r)
		unitOf[r] = PropUnit{Pkg: "theory", Func: r.Key}
		for _, o := range r.Obls {
			jobs = append(jobs, solveJob{o, r.Ctx})
		}
	}
	var skippedStar []string
	lemmasDone := map[string]bool{}
	// a unit with func "*" stands for every function of the package that is not listed explicitly (same groups)
	var expanded []PropUnit
	explicit := map[string]bool{}
	{
		var keep []PropUnit
		for _, pu := range spec.Units {
			if pu.Tier == "thorough" && tier != "thorough" {
				continue
			}
			keep = append(keep, pu)
		}
		spec.Units = keep
	}
	for _, pu := range spec.Units {
		if pu.Func != "*" {
			explicit[pu.Pkg+"|"+pu.Func] = true
		}
	}
	starUnits := map[string]bool{}
	for _, pu := range spec.Units {
		if pu.Func != "*" {
			expanded = append(expanded, pu)
			continue
		}
		ip := repoMod
		if pu.Pkg != "." {
			ip = repoMod + "/" + pu.Pkg
		}
		p := eng.pkgs[ip]
		if p == nil {
			undecided = append(undecided, fmt.Sprintf("BROKEN: package %s not loaded", pu.Pkg))
			broken = true
			continue
		}
		for _, key := range eng.allFuncKeys(p) {
			if explicit[pu.Pkg+"|"+key] || starUnits[pu.Pkg+"|"+key] || key == "init" || key == "main" {
				continue
			}
			q := pu
			q.Func = key
			q.MinObls = 0
			expanded = append(expanded, q)
			starUnits[pu.Pkg+"|"+key] = true
		}
	}
	spec.Units = expanded
	for _, pu := range spec.Units {
		ip := repoMod
		if pu.Pkg != "." {
			ip = repoMod + "/" + pu.Pkg
		}
		if !lemmasDone[ip] {
			lemmasDone[ip] = true
			for _, r := range eng.lemmaUnitsOf(ip) {
				results = append(results, r)
				unitOf[r] = PropUnit{Pkg: pu.Pkg, Func: r.Key}
				for _, e := range r.SpecErrors {
					undecided = append(undecided, fmt.Sprintf("UNDECIDED: lemma %s: %s", r.Key, e))
					broken = true
				}
				for _, o := range r.Obls {
					jobs = append(jobs, solveJob{o, r.Ctx})
				}
			}
		}
		p := eng.pkgs[ip]
		if p == nil {
			undecided = append(undecided, fmt.Sprintf("BROKEN: package %s not loaded", pu.Pkg))
			broken = true
			continue
		}
		res, err := eng.verifyFunc(p, pu.Func, false)
		if err != nil && starUnits[pu.Pkg+"|"+pu.Func] {
			skippedStar = append(skippedStar, pu.Func+": "+err.Error())
			continue
		}
		if err != nil {
			undecided = append(undecided, fmt.Sprintf("UNDECIDED: %v", err))
			broken = true
			continue
		}
		if res.Unsupported != "" {
			if starUnits[pu.Pkg+"|"+pu.Func] {
				skippedStar = append(skippedStar, res.Pkg+"."+res.Key+": "+res.Unsupported)
				continue
			}
			undecided = append(undecided, fmt.Sprintf("UNDECIDED: %s.%s: outside the supported subset: %s", res.Pkg, res.Key, res.Unsupported))
			broken = true
			continue
		}
		for _, e := range res.SpecErrors {
			if strings.HasPrefix(e, "lit ") && !claimsLit(pu) {
				continue // a vanished literal matters only to the check that claims that literal's postconditions
			}
			undecided = append(undecided, fmt.Sprintf("UNDECIDED: %s.%s: contract error: %s", res.Pkg, res.Key, e))
			broken = true
		}
		for _, n := range res.MissingLoops {
			undecided = append(undecided, fmt.Sprintf("UNDECIDED: %s.%s: contract anchor missing: loop %d", res.Pkg, res.Key, n))
			broken = true
		}
		results = append(results, res)
		unitOf[res] = pu
		for _, o := range res.Obls {
			if o.Group != "canary" && (!isClaimed(pu, o)) {
				o.Result, o.Solver = "skipped", "unclaimed"
				continue
			}
			jobs = append(jobs, solveJob{o, res.Ctx})
		}
	}
	discharge(jobs, outDir, budget, seed, 16)
	// retry non-definitive claimed obligations once at 5x budget (thorough only keeps the larger budget anyway)
	var retry []solveJob
	for _, j := range jobs {
		if j.ob.Expect == "unsat" && (j.ob.Result == "unknown" || j.ob.Result == "timeout") {
			retry = append(retry, j)
		}
	}
	if len(retry) > 0 && len(retry) <= 60 {
		discharge(retry, outDir, budget*3, seed+1, 16)
		// a last round with fewer workers (less contention) and a still larger budget for what remains undecided
		var retry2 []solveJob
		for _, j := range retry {
			if j.ob.Result == "unknown" || j.ob.Result == "timeout" {
				retry2 = append(retry2, j)
			}
		}
		if len(retry2) > 0 && len(retry2) <= 12 {
			discharge(retry2, outDir, budget*9, seed+2, 4)
		}
	}
	// per-obligation log (used by tools/stability.py to find slow or unstable obligations)
	{
		type obRec struct {
			Name    string  `json:"name"`
			Group   string  `json:"group"`
			Result  string  `json:"result"`
			Expect  string  `json:"expect"`
			Solver  string  `json:"solver"`
			Seconds float64 `json:"seconds"`
			Total   float64 `json:"total_seconds"`
			Tries   int     `json:"tries"`
		}
		var recs []obRec
		for _, j := range jobs {
			recs = append(recs, obRec{j.ob.Name, j.ob.Group, j.ob.Result, j.ob.Expect, j.ob.Solver, round3(j.ob.Seconds), round3(j.ob.Total), j.ob.Tries})
		}
		rb, _ := json.MarshalIndent(recs, "", " ")
		os.WriteFile(filepath.Join(outDir, "obligations.json"), rb, 0o644)
	}

	// classify
	var funcs []funcEvidence
	total, discharged, violations, unclaimedN := 0, 0, 0, 0
	var samples []any
	var knownLines, violLines []string
	var solverSec float64
	var canaryBad []string
	matchedFinding := map[string]bool{}
	var unclaimedNames, slowNames []string
	assumeScan := map[string]int{}
	for _, cs := range eng.contracts {
		for k, v := range cs.Scan {
			assumeScan[k] += v
		}
	}
	for _, res := range results {
		pu := unitOf[res]
		fe := funcEvidence{Func: res.Pkg + "." + res.Key, Mode: res.Mode, Precise: res.Precise, Abstracted: res.Abstracted,
			External: res.External, Contracts: res.CalledContracts, Lemmas: res.UsedLemmas}
		solverSet := map[string]bool{}
		claimedCount := 0
		exitCanaries, exitUnsat := 0, 0
		for _, o := range res.Obls {
			solverSec += o.Seconds
			fe.Seconds += o.Seconds
			if o.Group == "canary" {
				if o.Kind == "canary" {
					exitCanaries++
					if o.Result == "unsat" {
						exitUnsat++
					}
				} else if o.Result == "unsat" && o.Kind == "requires-sat" {
					canaryBad = append(canaryBad, o.Name)
				}
				continue
			}
			if !isClaimed(pu, o) {
				fe.Unclaimed++
				unclaimedN++
				if matchesAny(o.Name, pu.Unclaimed) {
					unclaimedNames = append(unclaimedNames, o.Name)
				} else if matchesAny(o.Name, pu.Slow) {
					slowNames = append(slowNames, o.Name)
				}
				continue
			}
			// known finding?
			if o.Result != "unsat" {
				if f := matchFinding(findings, id, o.Name); f != nil {
					knownLines = append(knownLines, fmt.Sprintf("KNOWN-FINDING: property=%s %s", id, f.Line))
					matchedFinding[f.Line] = true
					continue
				}
			}
			claimedCount++
			total++
			fe.Obligations++
			if o.Result == "unsat" {
				discharged++
				fe.Discharged++
				solverSet[o.Solver] = true
				if len(samples) < 6 && o.Solver != "syntactic" {
					samples = append(samples, map[string]any{"obligation": o.Name, "at": fmt.Sprintf("%s:%d", shortPath(o.Pos.Filename), o.Pos.Line),
						"what": oneLine(o.Detail), "result": o.Result, "solver": o.Solver, "seconds": round3(o.Seconds)})
				}
				continue
			}
			// violation
			violations++
			replay := filepath.Join(outDir, "replay", sanitizeFile(o.Name)+".txt")
			suffix := writeReplay(eng, replay, id, res, o)
			violLines = append(violLines, fmt.Sprintf("VIOLATION property=%s replay=%s obligation=%s result=%s%s", id, replay, o.Name, o.Result, suffix))
		}
		if exitCanaries > 0 && exitUnsat == exitCanaries && fe.Obligations == fe.Discharged {
			canaryBad = append(canaryBad, fe.Func+"/canary (no reachable exit)")
		}
		if pu.MinObls > 0 && claimedCount < pu.MinObls {
			undecided = append(undecided, fmt.Sprintf("BROKEN: %s has %d claimed obligations, expected at least %d (vacuity guard)", fe.Func, claimedCount, pu.MinObls))
			broken = true
		}
		for s := range solverSet {
			fe.Solvers = append(fe.Solvers, s)
		}
		sort.Strings(fe.Solvers)
		fe.Seconds = round3(fe.Seconds)
		funcs = append(funcs, fe)
	}
	for _, c := range canaryBad {
		undecided = append(undecided, fmt.Sprintf("BROKEN: vacuity canary %s came back unsat (contradictory assumptions)", c))
		broken = true
	}
	sort.Strings(knownLines)
	knownLines = uniq(knownLines)
	for _, l := range knownLines {
		fmt.Println(l)
	}
	for _, l := range violLines {
		fmt.Println(l)
	}
	// something the check needs is gone or inconsistent (contract anchor missing, contract no longer well-formed for the
	// code, vacuity guard): the property is not established for this tree. Reported as a violation without input.
	for i, msg := range undecided {
		fmt.Println(msg)
		replay := filepath.Join(outDir, "replay", fmt.Sprintf("undecided_%d.txt", i))
		os.WriteFile(replay, []byte("property: "+id+"\n"+msg+"\nThe obligations of this unit could not be generated or are vacuous on the current tree; nothing is proved for it.\nno-failing-input-found\n"), 0o644)
		fmt.Printf("VIOLATION property=%s replay=%s obligation=undecided[%d] %s no-failing-input-found\n", id, replay, i, oneLine(msg))
		violations++
	}
	level := spec.Level
	if level == "" {
		level = "proof"
	}
	ev := map[string]any{
		"property_id": id, "tier": tier, "seed": seed, "level": level, "wall_s": round3(time.Since(t0).Seconds()), "violations": violations,
		"assumptions": append(append([]string{}, spec.Assumptions...), engineAssumptions...),
		"coverage": map[string]any{
			"obligations": total, "discharged": discharged, "checker_cmd": fmt.Sprintf("bin/vcgo check %s --tier %s", id, tier),
			"trusted_base": spec.Trusted, "explanation": spec.Explanation, "samples": samples,
			"functions": funcs, "unclaimed_obligations": unclaimedN, "unclaimed_by_name": unclaimedNames, "thorough_tier_only": slowNames, "skipped_functions": skippedStar, "known_findings_matched": len(knownLines),
			"solver_seconds": round3(solverSec), "backends": []string{"z3-new 5.1.0", "z3 4.8.12", "cvc5 1.0"},
			"assumption_scan": assumeScan, "not_decided": spec.NotDecided,
			"evaluations": total, "distinct_nontrivial": discharged,
			"rule": "one evaluation = one named proof obligation generated from the current /repo source and sent to the SMT portfolio; distinct_nontrivial = obligations discharged (unsat)",
		},
	}
	os.MkdirAll(filepath.Join(vd, "evidence"), 0o755)
	eb, _ := json.MarshalIndent(ev, "", " ")
	if os.Getenv("VERIF_REPO") != "" {
		// a run against a scratch copy (seeded change): not the evidence of /repo
		os.WriteFile(filepath.Join(outDir, "evidence.json"), eb, 0o644)
	} else {
		os.WriteFile(filepath.Join(vd, "evidence", id+".json"), eb, 0o644)
	}
	fmt.Printf("%s: obligations=%d discharged=%d unclaimed=%d known-findings=%d violations=%d wall=%.1fs\n", id, total, discharged, unclaimedN, len(knownLines), violations, time.Since(t0).Seconds())
	if violations > 0 {
		return 1
	}
	if broken {
		return 1
	}
	return 0
}

// engineAssumptions: assumptions of the generator itself, the same for every check.
var engineAssumptions = []string{
	"engine: `check overflow` obligations are generated for fixed-width integer types only; platform-sized int/uint counters (range indices, sums of lengths of in-memory objects) are assumed not to wrap",
	"engine: when a contract identifier, call-site ordinal or loop ordinal no longer resolves on the current tree, it is realigned with the declarations / calls / loops recorded in baseline/bindings.json (renamed variables, moved sites, helpers added later are executed inline); the clause is still proved, each realignment is listed in the function's `abstracted` notes",
}

func round3(f float64) float64 { return float64(int(f*1000+0.5)) / 1000 }

func uniq(ss []string) []string {
	var out []string
	for i, s := range ss {
		if i == 0 || s != ss[i-1] {
			out = append(out, s)
		}
	}
	return out
}

var currentTier = "quick"

// isClaimed: the obligation is claimed by the unit (group listed, or name matches a `claim` pattern) and not excluded.
func isClaimed(pu PropUnit, o *Obligation) bool {
	if matchesAny(o.Name, pu.Unclaimed) {
		return false
	}
	if currentTier != "thorough" && matchesAny(o.Name, pu.Slow) {
		return false
	}
	if len(pu.Claim) > 0 && matchesAny(o.Name, pu.Claim) {
		return true
	}
	return groupClaimed(pu, o.Group)
}

func groupClaimed(pu PropUnit, g string) bool {
	if len(pu.Groups) == 0 {
		// every group of the function itself; obligations of escaping function literals ("lit:" groups) only when listed
		return !strings.HasPrefix(g, "lit:")
	}
	for _, x := range pu.Groups {
		if x == g {
			return true
		}
	}
	return false
}

func matchesAny(name string, pats []string) bool {
	for _, p := range pats {
		if strings.HasPrefix(p, "=") {
			// exact obligation name without the package-qualified function prefix: "=post#1", "=frame[HG_written]~2"
			if i := strings.Index(name, "/"); i >= 0 && name[i+1:] == p[1:] {
				return true
			}
			continue
		}
		if strings.Contains(name, p) {
			return true
		}
	}
	return false
}

func matchFinding(fs []Finding, prop, name string) *Finding {
	for i := range fs {
		f := &fs[i]
		if f.Kind == "finding" && f.Property == prop && f.Obligation != "" && f.Obligation == name {
			return f
		}
	}
	return nil
}

// writeReplay writes the replay file for a failed obligation; returns the VIOLATION-line suffix.
// replayBudget caps the number of replay attempts (each a `go test` run of up to a minute) of one check run.
var replayBudget = 8

func writeReplay(eng *Engine, path, prop string, res *UnitResult, o *Obligation) string {
	var b strings.Builder
	fmt.Fprintf(&b, "property: %s\nobligation: %s\nfunction: %s.%s\nsource: %s:%d\nwhat: %s\nsolver result: %s (%s)\n", prop, o.Name, res.Pkg, res.Key, shortPath(o.Pos.Filename), o.Pos.Line, o.Detail, o.Result, o.Solver)
	suffix := " no-failing-input-found"
	if replayBudget <= 0 {
		fmt.Fprintf(&b, "\nreplay skipped: the per-run cap on replay attempts was reached (the first failed obligations were replayed)\nsolver output:\n%s\nno-failing-input-found\n", o.Model)
	} else if o.Result == "sat" && o.Model != "" {
		replayBudget--
		fmt.Fprintf(&b, "\nverifier counterexample (parameter symbols p_<name>):\n%s\n", o.Model)
		if ok, out := tryReplay(eng, res, o); ok {
			suffix = ""
			fmt.Fprintf(&b, "\nreplayed against the real code:\n%s\n", out)
		} else {
			fmt.Fprintf(&b, "\nreplay: %s\nno-failing-input-found\n", out)
		}
	} else {
		replayBudget--
		fmt.Fprintf(&b, "\nno counterexample from the solver (%s): the obligation is undischarged.\nsolver output:\n%s\n", o.Result, o.Model)
		// candidate search: drop the quantified hypotheses (they are what keeps the solvers from answering sat) and
		// validate whatever model comes back by running it against the real code
		if ok, out := relaxedReplay(eng, res, o); ok {
			suffix = ""
			fmt.Fprintf(&b, "\ncandidate input from the quantifier-free relaxation of the query, confirmed against the real code:\n%s\n", out)
		} else {
			fmt.Fprintf(&b, "\nrelaxed candidate search: %s\nno-failing-input-found\n", out)
		}
	}
	fmt.Fprintf(&b, "\nquery file: %s\n", obFile(filepath.Dir(filepath.Dir(path)), o))
	os.WriteFile(path, []byte(b.String()), 0o644)
	return suffix
}

// relaxedReplay: re-solve the obligation without its quantified assumptions; a model of the relaxation is only a candidate
// and counts only if the replay on the real code fails.
func relaxedReplay(eng *Engine, res *UnitResult, o *Obligation) (bool, string) {
	if res.unit == nil || res.unit.decl == nil {
		return false, "not a function obligation"
	}
	lines := strings.Split(o.Query, "\n")
	var kept []string
	for i, l := range lines {
		last := i >= len(lines)-3
		if strings.HasPrefix(l, "(assert ") && !last && (strings.Contains(l, "(forall ") || strings.Contains(l, "(exists ")) {
			continue
		}
		kept = append(kept, l)
	}
	relaxed := *o
	relaxed.Query = strings.Join(kept, "\n")
	file := filepath.Join(eng.verifDir, "out", replayTmpName(), sanitizeFile(o.Name)+".relaxed.smt2")
	os.MkdirAll(filepath.Dir(file), 0o755)
	os.WriteFile(file, []byte(finalQuery(res.Ctx, relaxed.Query)), 0o644)
	r, out := runSolver(context.Background(), solvers[0], file, 8000, 0)
	if r != "sat" {
		return false, "relaxed query is " + r
	}
	relaxed.Result, relaxed.Model = "sat", modelOf(r, out)
	return tryReplay(eng, res, &relaxed)
}

// replayTmpName: the scratch directory of replay tests; a run against a scratch copy (VERIF_REPO) gets its own.
func replayTmpName() string {
	if r := os.Getenv("VERIF_REPO"); r != "" {
		return "replaytmp@" + filepath.Base(r)
	}
	return "replaytmp"
}

// claimsLit: the unit claims postconditions of an escaping function literal ("$litK/..." claim pattern or a "lit:" group).
func claimsLit(pu PropUnit) bool {
	for _, c := range pu.Claim {
		if strings.Contains(c, "$lit") {
			return true
		}
	}
	for _, g := range pu.Groups {
		if strings.HasPrefix(g, "lit:") {
			return true
		}
	}
	return false
}
