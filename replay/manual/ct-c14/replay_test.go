package accum

// Replay for the failed obligation accum.(*ObjectAccumulator).Run/bounds[data[1]] (accum/block.go:165):
// a CAR section whose payload after the CID is shorter than 2 bytes makes Run panic with "index out of range".
// Run: cd /repo && go test -overlay /verif/replay/manual/ct-c14/overlay.json ./accum -run TestReplayRunShortSection -count=1

import (
	"bytes"
	"context"
	"encoding/binary"
	"io"
	"testing"
	"time"

	"github.com/ipfs/go-cid"
	carv1 "github.com/ipld/go-car"
	"github.com/multiformats/go-multihash"
	"github.com/rpcpool/yellowstone-faithful/carreader"
	"github.com/rpcpool/yellowstone-faithful/iplddecoders"
)

func buildCar(t *testing.T, payloads ...[]byte) []byte {
	mh, err := multihash.Sum([]byte("root"), multihash.SHA2_256, -1)
	if err != nil {
		t.Fatal(err)
	}
	root := cid.NewCidV1(cid.DagCBOR, mh)
	var buf bytes.Buffer
	if err := carv1.WriteHeader(&carv1.CarHeader{Roots: []cid.Cid{root}, Version: 1}, &buf); err != nil {
		t.Fatal(err)
	}
	for _, p := range payloads {
		mh, _ := multihash.Sum(p, multihash.SHA2_256, -1)
		c := cid.NewCidV1(cid.DagCBOR, mh)
		var l [10]byte
		n := binary.PutUvarint(l[:], uint64(len(c.Bytes())+len(p)))
		buf.Write(l[:n])
		buf.Write(c.Bytes())
		buf.Write(p)
	}
	return buf.Bytes()
}

func TestReplayRunShortSection(t *testing.T) {
	for _, payload := range [][]byte{{}, {0x86}} {
		car := buildCar(t, payload)
		rd, err := carreader.New(io.NopCloser(bytes.NewReader(car)))
		if err != nil {
			t.Fatal(err)
		}
		oa := NewObjectAccumulator(rd, iplddecoders.KindBlock, func(*ObjectWithMetadata, []ObjectWithMetadata) error { return nil })
		func() {
			defer func() {
				if r := recover(); r != nil {
					t.Errorf("payload of %d bytes: Run panicked: %v", len(payload), r)
				}
			}()
			if err := oa.Run(context.Background()); err != nil {
				t.Logf("payload of %d bytes: Run returned error %v (fine)", len(payload), err)
			}
		}()
	}
}

// ErrStop path: startFlusher returns without flushWg.Done() when the callback answers ErrStop, so Run's deferred
// flushWg.Wait() never returns (liveness note of DESIGN.md C15; ErrStop has no user in the repository today).
func TestReplayErrStopHangs(t *testing.T) {
	car := buildCar(t, []byte{0x86, byte(iplddecoders.KindBlock)}, []byte{0x86, byte(iplddecoders.KindBlock)})
	rd, err := carreader.New(io.NopCloser(bytes.NewReader(car)))
	if err != nil {
		t.Fatal(err)
	}
	oa := NewObjectAccumulator(rd, iplddecoders.KindBlock, func(*ObjectWithMetadata, []ObjectWithMetadata) error { return ErrStop })
	done := make(chan error, 1)
	go func() { done <- oa.Run(context.Background()) }()
	select {
	case <-done:
	case <-time.After(2 * time.Second):
		t.Errorf("Run did not return 2 s after the callback answered ErrStop (flushWg.Wait blocks: the flusher exited without Done)")
	}
}
