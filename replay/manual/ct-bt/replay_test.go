package blocktimeindex

import (
	"bytes"
	"encoding/binary"
	"fmt"
	"testing"
)

func hdr(start, end, epoch, capacity uint64) []byte {
	b := append([]byte{}, magic...)
	b = binary.LittleEndian.AppendUint64(b, start)
	b = binary.LittleEndian.AppendUint64(b, end)
	b = binary.LittleEndian.AppendUint64(b, epoch)
	b = binary.LittleEndian.AppendUint64(b, capacity)
	return b
}

func catch(f func()) (p any) {
	defer func() { p = recover() }()
	f()
	return nil
}

// C12: make([]int64, capacity) with capacity taken from the file
func TestReplayMakeFromFile(t *testing.T) {
	data := hdr(0, 431999, 0, 1<<63) // 46 bytes
	p := catch(func() { _, _ = FromBytes(data) })
	fmt.Printf("REPLAY make: len(data)=%d panic=%v\n", len(data), p)
	data = hdr(0, 431999, 0, 1<<62)
	p = catch(func() { _, _ = FromBytes(data) })
	fmt.Printf("REPLAY make(2^62): len(data)=%d panic=%v\n", len(data), p)
}

// C01.5/C12: decoded index accepted although capacity <= end-start; Get then indexes out of range
func TestReplayGetBeyondCapacity(t *testing.T) {
	data := append(hdr(0, 431999, 0, 1), 1, 0, 0, 0)
	idx, err := FromBytes(data)
	fmt.Printf("REPLAY decode: err=%v capacity=%d len(values)=%d start=%d end=%d\n", err, idx.capacity, len(idx.values), idx.start, idx.end)
	p := catch(func() { _, _ = idx.Get(5) })
	fmt.Printf("REPLAY Get(5): panic=%v\n", p)
	p = catch(func() { _ = idx.Set(5, 7) })
	fmt.Printf("REPLAY Set(5): panic=%v\n", p)
}

// C13 (c): data cut inside the last value is accepted
func TestReplayShortRead(t *testing.T) {
	full := append(hdr(0, 431999, 0, 2), 0x11, 0x22, 0x33, 0x44, 0xaa, 0xbb, 0xcc, 0xdd)
	for cut := 1; cut <= 4; cut++ {
		data := full[:len(full)-cut]
		idx, err := FromBytes(data)
		if err == nil {
			fmt.Printf("REPLAY short: need=%d len(data)=%d err=nil values=%x\n", len(full), len(data), idx.values)
		} else {
			fmt.Printf("REPLAY short: need=%d len(data)=%d err=%v\n", len(full), len(data), err)
		}
		idx2, err2 := FromReader(bytes.NewReader(data))
		if err2 == nil {
			fmt.Printf("REPLAY short(FromReader): len(data)=%d err=nil values=%x\n", len(data), idx2.values)
		}
	}
	// cut inside the header field: 3 bytes of capacity
	data := full[:14+24+3]
	idx, err := FromBytes(data)
	fmt.Printf("REPLAY short header: len(data)=%d err=%v idx=%v\n", len(data), err, idx != nil)
}
