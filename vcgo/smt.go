package main

// SMT term layer: sorts derived from Go types, integer encodings (bv / int), declarations.

import (
	"fmt"
	"go/types"
	"math/big"
	"sort"
	"strings"
)

// Term is a symbolic value: SMT text plus the Go type it stands for.
type Term struct {
	S     string     // SMT-LIB term
	T     types.Type // Go type; nil for untyped constants / pure spec ints
	K     *big.Int   // integer constant value when known (typed or untyped)
	Bool  bool       // true when T==nil and the term is a spec-level Bool
	Tuple []Term     // multi-value results
	Spec  string     // explicit SMT sort for spec-only terms (overrides T)
}

func (t Term) IsTuple() bool { return t.Tuple != nil }

// Ctx is the per-function SMT context: declarations and fresh-name supply.
type Ctx struct {
	bv        bool // integer encoding of this unit
	decls     []string
	declared  map[string]bool
	sortDecls []string
	sortDone  map[string]string // key -> sort name
	n         int
	pkg       *types.Package
	tpSorts   map[string]bool
	structs   map[string]*types.Struct // datatype name -> struct
	abstr     []string                 // abstraction notes
	heapNames map[string]string        // heap name -> sort
	errConsts map[string]int
	strLits   map[string]int
	typeTags  map[string]int
}

func newCtx(bv bool, pkg *types.Package) *Ctx {
	c := &Ctx{bv: bv, declared: map[string]bool{}, sortDone: map[string]string{}, pkg: pkg,
		tpSorts: map[string]bool{}, structs: map[string]*types.Struct{}, heapNames: map[string]string{},
		errConsts: map[string]int{}, strLits: map[string]int{}, typeTags: map[string]int{}}
	return c
}

func (c *Ctx) idxSort() string {
	if c.bv {
		return "(_ BitVec 64)"
	}
	return "Int"
}

func (c *Ctx) note(format string, a ...any) {
	s := fmt.Sprintf(format, a...)
	for _, x := range c.abstr {
		if x == s {
			return
		}
	}
	c.abstr = append(c.abstr, s)
}

func (c *Ctx) fresh(prefix, sortS string) string {
	c.n++
	name := fmt.Sprintf("%s@%d", sanitize(prefix), c.n)
	c.decls = append(c.decls, fmt.Sprintf("(declare-fun %s () %s)", name, sortS))
	return name
}

func (c *Ctx) declareFun(name, sig string) {
	if c.declared[name] {
		return
	}
	c.declared[name] = true
	c.decls = append(c.decls, fmt.Sprintf("(declare-fun %s %s)", name, sig))
}

func (c *Ctx) declareRaw(key, text string) {
	if c.declared[key] {
		return
	}
	c.declared[key] = true
	c.decls = append(c.decls, text)
}

func sanitize(s string) string {
	var b strings.Builder
	for _, r := range s {
		switch {
		case r >= 'a' && r <= 'z', r >= 'A' && r <= 'Z', r >= '0' && r <= '9', r == '_', r == '.':
			b.WriteRune(r)
		default:
			b.WriteByte('_')
		}
	}
	if b.Len() == 0 {
		return "v"
	}
	return b.String()
}

// ---------- sorts ----------

func intInfo(t types.Type) (bits int, signed bool, ok bool) {
	b, isB := t.Underlying().(*types.Basic)
	if !isB {
		return
	}
	switch b.Kind() {
	case types.Int8:
		return 8, true, true
	case types.Int16:
		return 16, true, true
	case types.Int32:
		return 32, true, true
	case types.Int64, types.Int:
		return 64, true, true
	case types.Uint8:
		return 8, false, true
	case types.Uint16:
		return 16, false, true
	case types.Uint32:
		return 32, false, true
	case types.Uint64, types.Uint, types.Uintptr:
		return 64, false, true
	case types.UntypedInt, types.UntypedRune:
		return 64, true, true
	}
	return
}

func isBoolType(t types.Type) bool {
	b, ok := t.Underlying().(*types.Basic)
	return ok && (b.Kind() == types.Bool || b.Kind() == types.UntypedBool)
}

func isStringType(t types.Type) bool {
	b, ok := t.Underlying().(*types.Basic)
	return ok && (b.Kind() == types.String || b.Kind() == types.UntypedString)
}

func isErrorType(t types.Type) bool {
	if n, ok := t.(*types.Named); ok {
		return n.Obj().Pkg() == nil && n.Obj().Name() == "error"
	}
	return false
}

func isEmptyInterface(t types.Type) bool {
	i, ok := t.Underlying().(*types.Interface)
	return ok && i.NumMethods() == 0 && !isErrorType(t)
}

func (c *Ctx) bvSort(bits int) string { return fmt.Sprintf("(_ BitVec %d)", bits) }

// sortOf maps a Go type to an SMT sort, declaring datatypes on demand.
func (c *Ctx) sortOf(t types.Type) string {
	if t == nil {
		return "Int"
	}
	if tp, ok := t.(*types.TypeParam); ok {
		name := "TP_" + sanitize(tp.Obj().Name())
		if !c.tpSorts[name] {
			c.tpSorts[name] = true
			c.sortDecls = append(c.sortDecls, fmt.Sprintf("(declare-sort %s 0)", name))
		}
		return name
	}
	if isErrorType(t) {
		return "Int"
	}
	switch u := t.Underlying().(type) {
	case *types.Basic:
		if bits, _, ok := intInfo(t); ok {
			if c.bv {
				return c.bvSort(bits)
			}
			return "Int"
		}
		if isBoolType(t) {
			return "Bool"
		}
		if isStringType(t) {
			return "Str"
		}
		switch u.Kind() {
		case types.Float32, types.Float64, types.UntypedFloat:
			return "F64"
		case types.UnsafePointer:
			return "Int"
		case types.UntypedNil:
			return "Int"
		}
		return "Opaque"
	case *types.Pointer:
		return "Int"
	case *types.Slice:
		return "Slice"
	case *types.Array:
		return fmt.Sprintf("(Array %s %s)", c.idxSort(), c.sortOf(u.Elem()))
	case *types.Map, *types.Chan, *types.Signature:
		return "Int"
	case *types.Interface:
		if isEmptyInterface(t) {
			return "Any"
		}
		return "Int"
	case *types.Struct:
		return c.structSort(t, u)
	case *types.Tuple:
		return "Opaque"
	}
	return "Opaque"
}

func typeKey(t types.Type) string {
	return types.TypeString(t, func(p *types.Package) string { return p.Path() })
}

func (c *Ctx) structSort(t types.Type, st *types.Struct) string {
	key := typeKey(t)
	if s, ok := c.sortDone[key]; ok {
		return s
	}
	var name string
	if n, ok := t.(*types.Named); ok {
		pk := ""
		if n.Obj().Pkg() != nil {
			pk = n.Obj().Pkg().Name()
		}
		name = "S_" + sanitize(pk) + "_" + sanitize(n.Obj().Name())
		if n.TypeArgs() != nil && n.TypeArgs().Len() > 0 {
			name += fmt.Sprintf("_g%d", len(c.sortDone))
		}
	} else {
		name = fmt.Sprintf("S_anon%d", len(c.sortDone))
	}
	// avoid clashes
	for _, v := range c.sortDone {
		if v == name {
			name = fmt.Sprintf("%s_%d", name, len(c.sortDone))
		}
	}
	c.sortDone[key] = name
	c.structs[name] = st
	if st.NumFields() == 0 {
		c.sortDecls = append(c.sortDecls, fmt.Sprintf("(declare-datatypes ((%s 0)) (((mk_%s))))", name, name))
		return name
	}
	var fs []string
	for i := 0; i < st.NumFields(); i++ {
		f := st.Field(i)
		fs = append(fs, fmt.Sprintf("(%s.%s %s)", name, fldName(f, i), c.sortOf(f.Type())))
	}
	c.sortDecls = append(c.sortDecls, fmt.Sprintf("(declare-datatypes ((%s 0)) (((mk_%s %s))))", name, name, strings.Join(fs, " ")))
	return name
}

// prelude returns sort declarations common to every query.
func (c *Ctx) prelude() string {
	var b strings.Builder
	b.WriteString("(set-option :produce-models true)\n(set-logic ALL)\n")
	b.WriteString("(declare-sort Opaque 0)\n(declare-sort Str 0)\n(declare-sort F64 0)\n(declare-sort Any 0)\n")
	idx := c.idxSort()
	fmt.Fprintf(&b, "(declare-datatypes ((Slice 0)) (((mk_slice (s.ref Int) (s.off %s) (s.len %s) (s.cap %s)))))\n", idx, idx, idx)
	b.WriteString("(declare-fun any.tag (Any) Int)\n(declare-fun gstr.len (Str) " + idx + ")\n")
	b.WriteString("(declare-fun errwraps (Int Int) Bool)\n")
	for _, d := range c.sortDecls {
		b.WriteString(d)
		b.WriteByte('\n')
	}
	return b.String()
}

// ---------- integer operations ----------

func pow2(n int) *big.Int { return new(big.Int).Lsh(big.NewInt(1), uint(n)) }

func intRange(bits int, signed bool) (lo, hi *big.Int) {
	if signed {
		hi = new(big.Int).Sub(pow2(bits-1), big.NewInt(1))
		lo = new(big.Int).Neg(pow2(bits - 1))
		return
	}
	return big.NewInt(0), new(big.Int).Sub(pow2(bits), big.NewInt(1))
}

func smtInt(v *big.Int) string {
	if v.Sign() < 0 {
		return "(- " + new(big.Int).Neg(v).String() + ")"
	}
	return v.String()
}

func (c *Ctx) constInt(v *big.Int, bits int, signed bool) string {
	if c.bv {
		m := new(big.Int).Mod(v, pow2(bits))
		return fmt.Sprintf("(_ bv%s %d)", m.String(), bits)
	}
	return smtInt(v)
}

// wrapInt reduces a mathematical integer term into the range of the type (int mode).
func (c *Ctx) wrapInt(x string, bits int, signed bool) string {
	lo, hi := intRange(bits, signed)
	m := pow2(bits).String()
	v := x
	bind := len(x) > 24
	if bind {
		c.n++
		v = fmt.Sprintf("w!%d", c.n)
	}
	var w string
	if signed {
		h := pow2(bits - 1).String()
		w = fmt.Sprintf("(- (mod (+ %s %s) %s) %s)", v, h, m, h)
	} else {
		w = fmt.Sprintf("(mod %s %s)", v, m)
	}
	r := fmt.Sprintf("(ite (and (<= %s %s) (<= %s %s)) %s %s)", smtInt(lo), v, v, smtInt(hi), v, w)
	if bind {
		return fmt.Sprintf("(let ((%s %s)) %s)", v, x, r)
	}
	return r
}

func (c *Ctx) inRange(x string, bits int, signed bool) string {
	lo, hi := intRange(bits, signed)
	if len(x) > 24 {
		c.n++
		v := fmt.Sprintf("w!%d", c.n)
		return fmt.Sprintf("(let ((%s %s)) (and (<= %s %s) (<= %s %s)))", v, x, smtInt(lo), v, v, smtInt(hi))
	}
	return fmt.Sprintf("(and (<= %s %s) (<= %s %s))", smtInt(lo), x, x, smtInt(hi))
}

// idx helpers: constants and arithmetic on the index sort (Go int).
func (c *Ctx) idxConst(n int64) string { return c.constInt(big.NewInt(n), 64, true) }
func (c *Ctx) idxAdd(a, b string) string {
	if c.bv {
		return fmt.Sprintf("(bvadd %s %s)", a, b)
	}
	return fmt.Sprintf("(+ %s %s)", a, b)
}
func (c *Ctx) idxSub(a, b string) string {
	if c.bv {
		return fmt.Sprintf("(bvsub %s %s)", a, b)
	}
	return fmt.Sprintf("(- %s %s)", a, b)
}
func (c *Ctx) idxLe(a, b string) string {
	if c.bv {
		return fmt.Sprintf("(bvsle %s %s)", a, b)
	}
	return fmt.Sprintf("(<= %s %s)", a, b)
}
func (c *Ctx) idxLt(a, b string) string {
	if c.bv {
		return fmt.Sprintf("(bvslt %s %s)", a, b)
	}
	return fmt.Sprintf("(< %s %s)", a, b)
}

func and(xs ...string) string {
	var ys []string
	for _, x := range xs {
		if x == "true" || x == "" {
			continue
		}
		if x == "false" {
			return "false"
		}
		ys = append(ys, x)
	}
	switch len(ys) {
	case 0:
		return "true"
	case 1:
		return ys[0]
	}
	return "(and " + strings.Join(ys, " ") + ")"
}

func or(xs ...string) string {
	var ys []string
	for _, x := range xs {
		if x == "false" || x == "" {
			continue
		}
		if x == "true" {
			return "true"
		}
		ys = append(ys, x)
	}
	switch len(ys) {
	case 0:
		return "false"
	case 1:
		return ys[0]
	}
	return "(or " + strings.Join(ys, " ") + ")"
}

func not(x string) string {
	switch x {
	case "true":
		return "false"
	case "false":
		return "true"
	}
	if strings.HasPrefix(x, "(not ") && balancedOne(x[5:len(x)-1]) {
		return x[5 : len(x)-1]
	}
	return "(not " + x + ")"
}

func balancedOne(s string) bool {
	// true if s is a single balanced s-expression or atom
	d := 0
	for i, ch := range s {
		switch ch {
		case '(':
			d++
		case ')':
			d--
			if d == 0 && i != len(s)-1 {
				return false
			}
			if d < 0 {
				return false
			}
		case ' ':
			if d == 0 {
				return false
			}
		}
	}
	return d == 0
}

func implies(a, b string) string {
	if a == "true" {
		return b
	}
	if b == "true" || a == "false" {
		return "true"
	}
	return "(=> " + a + " " + b + ")"
}

func ite(c, a, b string) string {
	if c == "true" {
		return a
	}
	if c == "false" {
		return b
	}
	if a == b {
		return a
	}
	return "(ite " + c + " " + a + " " + b + ")"
}

func eq(a, b string) string {
	if a == b {
		return "true"
	}
	return "(= " + a + " " + b + ")"
}

// sorted keys helper
func sortedKeys[V any](m map[string]V) []string {
	ks := make([]string, 0, len(m))
	for k := range m {
		ks = append(ks, k)
	}
	sort.Strings(ks)
	return ks
}

// fldName: accessor name of struct field i (blank fields are numbered).
func fldName(f *types.Var, i int) string {
	if f.Name() == "_" {
		return fmt.Sprintf("blank%d", i)
	}
	return sanitize(f.Name())
}
