package main

// Trusted models of standard-library / third-party functions (DESIGN §1.6).

import (
	"fmt"
	"go/ast"
	"go/token"
	"go/types"
	"math/big"
	"strings"
)

var bigOne = big.NewInt(1)

// libEffects: heap effects of modelled library functions, for loop havoc. ("bytes" = byte element heap)
func libEffects(f *types.Func) ([]string, bool) {
	full := f.FullName()
	switch {
	case strings.HasPrefix(full, "(encoding/binary.littleEndian).Put"), strings.HasPrefix(full, "(encoding/binary.bigEndian).Put"),
		full == "encoding/binary.PutUvarint":
		return []string{"bytes"}, true
	case strings.HasPrefix(full, "(encoding/binary.littleEndian).Uint"), strings.HasPrefix(full, "(encoding/binary.bigEndian).Uint"),
		full == "encoding/binary.Uvarint", full == "errors.New", full == "fmt.Errorf", full == "errors.Is", full == "bytes.Equal",
		full == "encoding/binary.AppendUvarint":
		if full == "encoding/binary.AppendUvarint" {
			return []string{"bytes"}, true
		}
		return nil, true
	case full == "io.ReadFull", full == "(*bytes.Reader).Read", full == "(*bufio.Reader).Read", full == "(io.Reader).Read":
		return []string{"bytes", "consumed"}, true
	case full == "(*bufio.Reader).ReadByte", full == "(*bytes.Reader).ReadByte", full == "(io.ByteReader).ReadByte":
		return []string{"consumed"}, true
	case full == "(*bytes.Reader).Len", full == "(*bufio.Reader).Peek":
		return nil, true
	case full == "(context.Context).Err":
		return []string{"ctxdone"}, true
	case full == "github.com/filecoin-project/go-leb128.FromUInt64", full == "(github.com/ipfs/go-cid.Cid).Bytes":
		return []string{"bytes"}, true
	case full == "(github.com/ipfs/go-cid.Cid).ByteLen", full == "(github.com/ipfs/go-cid.Cid).Equals", full == "(github.com/ipfs/go-cid.Cid).Defined",
		full == "(github.com/ipfs/go-cid.Cid).String", full == "(github.com/ipfs/go-cid.Cid).KeyString":
		return nil, true
	case full == "github.com/ipfs/go-cid.CidFromReader":
		return []string{"consumed"}, true
	case full == "io.CopyN":
		return []string{"consumed", "written"}, true
	case full == "encoding/binary.ReadUvarint":
		return []string{"all"}, true
	case strings.HasSuffix(full, ").ReadAt"):
		return []string{"bytes"}, true
	case strings.HasPrefix(full, "(*sync.RWMutex)."), strings.HasPrefix(full, "(*sync.Mutex)."):
		return nil, true
	case full == "(*bufio.Writer).Write", full == "(*os.File).Write", full == "(*bytes.Buffer).Write", full == "(io.Writer).Write",
		full == "(*bufio.Writer).WriteByte", full == "(*bytes.Buffer).WriteByte", full == "encoding/binary.Write":
		return []string{"written"}, true
	case full == "(*bufio.Writer).Flush":
		return nil, true
	}
	return nil, false
}

var pureExternalPkgs = map[string]bool{
	"fmt": true, "errors": true, "strings": true, "strconv": true, "time": true, "math": true, "math/bits": true,
	"unicode": true, "unicode/utf8": true, "path/filepath": true, "path": true, "k8s.io/klog/v2": true, "log": true,
	"context": true, "github.com/cespare/xxhash/v2": true, "hash/crc64": true, "hash/fnv": true, "runtime": true,
	"github.com/dustin/go-humanize": true, "encoding/hex": true, "encoding/base64": true, "github.com/mr-tron/base58": true,
	"os": false,
}

func (eng *Engine) isPureExternal(f *types.Func) bool {
	if f.Pkg() == nil {
		return true
	}
	if eng.isRepoPkg(f.Pkg().Path()) {
		return false
	}
	return pureExternalPkgs[f.Pkg().Path()]
}

func (u *Unit) byteT() types.Type { return types.Typ[types.Uint8] }

// leValue: little/big-endian value of n bytes of slice b, as a term of an n*8-bit unsigned type.
func (u *Unit) endianValue(st *State, b Term, n int, little bool) string {
	c := u.c
	get := func(i int) string {
		t := u.sliceElem(st, b, c.idxConst(int64(i)))
		u.assumeRange(st, t)
		return t.S
	}
	if c.bv {
		// concat most significant first
		var parts []string
		for k := n - 1; k >= 0; k-- {
			i := k
			if !little {
				i = n - 1 - k
			}
			parts = append(parts, get(i))
		}
		if n == 1 {
			return parts[0]
		}
		return "(concat " + strings.Join(parts, " ") + ")"
	}
	var parts []string
	for k := 0; k < n; k++ {
		i := k
		if !little {
			i = n - 1 - k
		}
		if k == 0 {
			parts = append(parts, get(i))
		} else {
			parts = append(parts, fmt.Sprintf("(* %s %s)", pow2(8*k).String(), get(i)))
		}
	}
	return "(+ " + strings.Join(parts, " ") + ")"
}

func (u *Unit) putEndian(st *State, b Term, v Term, n int, little bool) {
	c := u.c
	h := u.elemHeap(u.byteT())
	cur := u.heapRead(st, h)
	blk := fmt.Sprintf("(select %s %s)", cur, sRef(b.S))
	nb := blk
	for k := 0; k < n; k++ {
		i := k
		if !little {
			i = n - 1 - k
		}
		var by string
		if c.bv {
			by = fmt.Sprintf("((_ extract %d %d) %s)", 8*k+7, 8*k, v.S)
		} else {
			by = fmt.Sprintf("(mod (div %s %s) 256)", v.S, pow2(8*k).String())
		}
		nb = fmt.Sprintf("(store %s %s %s)", nb, c.idxAdd(sOff(b.S), c.idxConst(int64(i))), by)
	}
	u.heapWrite(st, h, fmt.Sprintf("(store %s %s %s)", cur, sRef(b.S), nb))
}

func (u *Unit) requireLen(st *State, e *ast.CallExpr, b Term, n int) {
	c := u.c
	goal := c.idxLe(c.idxConst(int64(n)), sLen(b.S))
	u.emit(st, "safety", u.safetyName("bounds", u.exprText(e)), fmt.Sprintf("buffer has at least %d bytes: %s", n, u.exprText(e)), e.Pos(), goal)
	st.assume(goal)
}

// uvarint theory (closed form): number of bytes and k-th byte of the encoding.
func (u *Unit) uvlen(x string) string {
	c := u.c
	r := c.idxConst(10)
	for k := 9; k >= 1; k-- {
		var lt string
		if c.bv {
			lt = fmt.Sprintf("(bvult %s %s)", x, c.constInt(pow2(7*k), 64, false))
		} else {
			lt = fmt.Sprintf("(< %s %s)", x, pow2(7*k).String())
		}
		r = ite(lt, c.idxConst(int64(k)), r)
	}
	return r
}

func (u *Unit) uvbyte(x string, k int, last string) string {
	// k-th byte of the uvarint encoding of x; `last` says whether k is the final byte
	c := u.c
	if c.bv {
		sh := fmt.Sprintf("((_ extract 7 0) (bvlshr %s %s))", x, c.constInt(big.NewInt(int64(7*k)), 64, false))
		return ite(last, sh, fmt.Sprintf("(bvor (bvand %s #x7f) #x80)", sh))
	}
	d := fmt.Sprintf("(div %s %s)", x, pow2(7*k).String())
	return ite(last, d, fmt.Sprintf("(+ (mod %s 128) 128)", d))
}

// assumeUvarintAt: bytes blk[base .. base+uvlen(x)) are the encoding of x.
func (u *Unit) uvarintAtFacts(blk string, base string, x string) string {
	c := u.c
	n := u.uvlen(x)
	var fs []string
	for k := 0; k < 10; k++ {
		kk := c.idxConst(int64(k))
		in := c.idxLt(kk, n)
		last := eq(c.idxAdd(kk, c.idxConst(1)), n)
		fs = append(fs, implies(in, eq(fmt.Sprintf("(select %s %s)", blk, c.idxAdd(base, kk)), u.uvbyte(x, k, last))))
	}
	return and(fs...)
}

// libModel returns the modelled result of a library call, if there is a model.
func (u *Unit) libModel(st *State, e *ast.CallExpr, callee *types.Func, ca callArgs) (Term, bool) {
	c := u.c
	full := callee.FullName()
	sig := callee.Type().(*types.Signature)
	if ca.isig != nil {
		sig = ca.isig
	}
	boolT := types.Typ[types.Bool]
	switch full {
	case "(encoding/binary.littleEndian).Uint16", "(encoding/binary.littleEndian).Uint32", "(encoding/binary.littleEndian).Uint64",
		"(encoding/binary.bigEndian).Uint16", "(encoding/binary.bigEndian).Uint32", "(encoding/binary.bigEndian).Uint64":
		n := map[byte]int{'6': 2, '2': 4, '4': 8}[full[len(full)-1]]
		b := ca.args[0]
		u.requireLen(st, e, b, n)
		v := u.endianValue(st, b, n, strings.Contains(full, "little"))
		r := Term{S: v, T: sig.Results().At(0).Type()}
		if len(v) > 60 {
			nm := c.fresh("le", c.sortOf(r.T))
			st.assume(eq(nm, v))
			r.S = nm
		}
		u.assumeRange(st, r)
		return r, true
	case "(encoding/binary.littleEndian).PutUint16", "(encoding/binary.littleEndian).PutUint32", "(encoding/binary.littleEndian).PutUint64",
		"(encoding/binary.bigEndian).PutUint16", "(encoding/binary.bigEndian).PutUint32", "(encoding/binary.bigEndian).PutUint64":
		n := map[byte]int{'6': 2, '2': 4, '4': 8}[full[len(full)-1]]
		b := ca.args[0]
		u.requireLen(st, e, b, n)
		u.putEndian(st, b, ca.args[1], n, strings.Contains(full, "little"))
		return Term{Tuple: []Term{}}, true
	case "encoding/binary.PutUvarint":
		// panics if the buffer is too small
		b, x := ca.args[0], ca.args[1]
		n := u.uvlen(x.S)
		goal := c.idxLe(n, sLen(b.S))
		u.emit(st, "safety", u.safetyName("bounds", u.exprText(e)), "PutUvarint buffer large enough: "+u.exprText(e), e.Pos(), goal)
		st.assume(goal)
		h := u.elemHeap(u.byteT())
		cur := u.heapRead(st, h)
		oldBlk := fmt.Sprintf("(select %s %s)", cur, sRef(b.S))
		nb := c.fresh("blk", fmt.Sprintf("(Array %s %s)", c.idxSort(), c.sortOf(u.byteT())))
		k := c.fresh("k", c.idxSort())
		out := or(c.idxLt(k, sOff(b.S)), c.idxLe(c.idxAdd(sOff(b.S), n), k))
		u.assumeForall(st, k, c.idxSort(), implies(out, eq(fmt.Sprintf("(select %s %s)", nb, k), fmt.Sprintf("(select %s %s)", oldBlk, k))), fmt.Sprintf("(select %s %s)", nb, k))
		st.assume(u.uvarintAtFacts(nb, sOff(b.S), x.S))
		u.heapWrite(st, h, fmt.Sprintf("(store %s %s %s)", cur, sRef(b.S), nb))
		return Term{S: n, T: types.Typ[types.Int]}, true
	case "encoding/binary.Uvarint":
		// (v, n): n > 0: buf[0..n) decodes to v: bytes 0..n-2 have the continuation bit, byte n-1 does not, v is the sum of
		// the 7-bit groups (non-canonical encodings such as 80 00 are accepted by the real function, so n >= uvlen(v) only);
		// n == 0: buffer too small; n < 0: overflow
		b := ca.args[0]
		v := u.freshOf(st, types.Typ[types.Uint64], "uv")
		n := u.freshOf(st, types.Typ[types.Int], "uvn")
		blk := u.sliceBlock(st, b)
		st.assume(and(c.idxLe(c.idxConst(-11), n.S), c.idxLe(n.S, c.idxConst(10)), c.idxLe(n.S, sLen(b.S))))
		pos := c.idxLt(c.idxConst(0), n.S)
		var facts []string
		var sum string
		for k := 0; k < 10; k++ {
			kk := c.idxConst(int64(k))
			by := fmt.Sprintf("(select %s %s)", blk, c.idxAdd(sOff(b.S), kk))
			in := c.idxLt(kk, n.S)
			last := eq(c.idxAdd(kk, c.idxConst(1)), n.S)
			var hi, grp string
			if c.bv {
				hi = fmt.Sprintf("(bvuge %s #x80)", by)
				grp = fmt.Sprintf("(bvshl ((_ zero_extend 56) (bvand %s #x7f)) %s)", by, c.constInt(big.NewInt(int64(7*k)), 64, false))
				grp = ite(in, grp, c.constInt(big.NewInt(0), 64, false))
				if sum == "" {
					sum = grp
				} else {
					sum = fmt.Sprintf("(bvadd %s %s)", sum, grp)
				}
			} else {
				hi = fmt.Sprintf("(>= %s 128)", by)
				facts = append(facts, implies(in, and("(<= 0 "+by+")", "(<= "+by+" 255)")))
				grp = ite(in, fmt.Sprintf("(* (mod %s 128) %s)", by, pow2(7*k).String()), "0")
				if sum == "" {
					sum = grp
				} else {
					sum = fmt.Sprintf("(+ %s %s)", sum, grp)
				}
			}
			facts = append(facts, implies(and(in, not(last)), hi), implies(and(in, last), not(hi)))
			if k == 9 {
				// the tenth byte carries one bit
				if c.bv {
					facts = append(facts, implies(in, fmt.Sprintf("(bvule %s #x01)", by)))
				} else {
					facts = append(facts, implies(in, "(<= "+by+" 1)"))
				}
			}
		}
		st.assume(implies(pos, and(append(facts, eq(v.S, sum), c.idxLe(u.uvlen(v.S), n.S))...)))
		zero := c.constInt(big.NewInt(0), 64, false)
		st.assume(implies(not(pos), eq(v.S, zero)))
		st.assume(implies(eq(sLen(b.S), c.idxConst(0)), eq(n.S, c.idxConst(0))))
		return Term{Tuple: []Term{v, n}}, true
	case "encoding/binary.AppendUvarint":
		// append(buf, encoding...): model through a fresh result slice
		b, x := ca.args[0], ca.args[1]
		n := u.uvlen(x.S)
		h := u.elemHeap(u.byteT())
		newLen := c.idxAdd(sLen(b.S), n)
		fits := c.idxLe(newLen, sCap(b.S))
		freshRef := u.newRef(st)
		res := c.fresh("app", "Slice")
		newCap := c.fresh("cap", c.idxSort())
		st.assume(and(c.idxLe(newLen, newCap), c.idxLe(newCap, c.constInt(pow2(56), 64, true))))
		st.assume(eq(res, ite(fits, fmt.Sprintf("(mk_slice %s %s %s %s)", sRef(b.S), sOff(b.S), newLen, sCap(b.S)),
			fmt.Sprintf("(mk_slice %s %s %s %s)", freshRef, c.idxConst(0), newLen, newCap))))
		cur := u.heapRead(st, h)
		oldBlk := fmt.Sprintf("(select %s %s)", cur, sRef(b.S))
		nb := c.fresh("blk", fmt.Sprintf("(Array %s %s)", c.idxSort(), c.sortOf(u.byteT())))
		k := c.fresh("k", c.idxSort())
		base := c.idxAdd(sOff(res), sLen(b.S))
		// old elements preserved (in place: whole block outside the new bytes; fresh: copied prefix)
		u.assumeForall(st, k, c.idxSort(), implies(and(fits, or(c.idxLt(k, base), c.idxLe(c.idxAdd(base, n), k))),
			eq(fmt.Sprintf("(select %s %s)", nb, k), fmt.Sprintf("(select %s %s)", oldBlk, k))), fmt.Sprintf("(select %s %s)", nb, k))
		k2 := c.fresh("k", c.idxSort())
		u.assumeForall(st, k2, c.idxSort(), implies(and(not(fits), c.idxLe(c.idxConst(0), k2), c.idxLt(k2, sLen(b.S))),
			eq(fmt.Sprintf("(select %s %s)", nb, k2), fmt.Sprintf("(select %s %s)", oldBlk, c.idxAdd(sOff(b.S), k2)))), fmt.Sprintf("(select %s %s)", nb, k2))
		st.assume(u.uvarintAtFacts(nb, base, x.S))
		u.heapWrite(st, h, fmt.Sprintf("(store %s %s %s)", cur, sRef(res), nb))
		st.spare = append(st.spare, spareRegion{h, sRef(b.S), c.idxAdd(sOff(b.S), sLen(b.S))})
		return Term{S: res, T: sig.Results().At(0).Type()}, true
	case "math/bits.LeadingZeros64", "math/bits.Len64":
		// exact in bit-vector mode: Len64(n) is the position of the highest set bit plus one, LeadingZeros64 = 64 - Len64
		if c.bv && len(ca.args) == 1 {
			n := ca.args[0].S
			ln := c.fresh("bitlen", "(_ BitVec 64)")
			st.assume(fmt.Sprintf("(bvule %s #x0000000000000040)", ln))
			st.assume(fmt.Sprintf("(= (= %s #x0000000000000000) (= %s #x0000000000000000))", ln, n))
			// for n != 0: shifting right by len-1 leaves exactly 1
			st.assume(fmt.Sprintf("(=> (not (= %s #x0000000000000000)) (= (bvlshr %s (bvsub %s #x0000000000000001)) #x0000000000000001))", n, n, ln))
			r := ln
			if full == "math/bits.LeadingZeros64" {
				r = fmt.Sprintf("(bvsub #x0000000000000040 %s)", ln)
			}
			return Term{S: r, T: sig.Results().At(0).Type()}, true
		}
	case "slices.Clip":
		// s[:len(s):len(s)]: same storage, capacity clipped; writes nothing
		a := ca.args[0]
		if _, ok := a.T.Underlying().(*types.Slice); ok {
			return Term{S: fmt.Sprintf("(mk_slice %s %s %s %s)", sRef(a.S), sOff(a.S), sLen(a.S), sLen(a.S)), T: sig.Results().At(0).Type()}, true
		}
	case "slices.Sort":
		// ascending order of an integer slice; same trusted statement as sort.Slice(s, func(i, j) { return s[i] < s[j] })
		if len(e.Args) == 1 {
			if r, ok := u.sortCore(st, e, "", token.LSS, nil); ok {
				return r, true
			}
		}
	case "sort.Slice":
		if r, ok := u.sortSliceModel(st, e, ca); ok {
			return r, true
		}
		if r, ok := u.sortSliceGeneric(st, e, ca); ok {
			return r, true
		}
	case "(*bytes.Buffer).Len":
		// the number of unread bytes: everything written minus everything read
		u.checkNonNilTerm(st, *ca.recv, e, "receiver of "+u.exprTextShort(e.Fun))
		r := u.freshOf(st, types.Typ[types.Int], "buflen")
		w, rd := u.ghostCount(st, "written", ca.recv.S), u.ghostCount(st, "consumed", ca.recv.S)
		if c.bv {
			return Term{}, false
		}
		st.assume(eq(r.S, fmt.Sprintf("(- %s %s)", w, rd)))
		return r, true
	case "(*bytes.Buffer).Bytes":
		// the unread portion of the buffer: the same slice value as long as nothing is written to or read from the buffer
		// (a function of the buffer and its two ghost byte counters); content and length are not modelled
		u.checkNonNilTerm(st, *ca.recv, e, "receiver of "+u.exprTextShort(e.Fun))
		c.declareFun("wbuf.slice", "(Int Int Int) Slice")
		r := Term{S: fmt.Sprintf("(wbuf.slice %s %s %s)", ca.recv.S, u.ghostCount(st, "written", ca.recv.S), u.ghostCount(st, "consumed", ca.recv.S)), T: sig.Results().At(0).Type()}
		st.assume(u.rangeFacts(st, r.S, r.T, 0))
		return r, true
	case "(*sync.Pool).Put":
		// the pool keeps the object; nothing is written (using the object after Put is the caller's business)
		return Term{Tuple: []Term{}}, true
	case "(*sync.Pool).Get":
		// an arbitrary value: possibly one handed to Put earlier (NOT fresh), possibly the result of New
		return u.freshOf(st, sig.Results().At(0).Type(), "pooled"), true
	case "(*sync.WaitGroup).Add", "(*sync.WaitGroup).Done":
		return Term{Tuple: []Term{}}, true
	case "errors.New":
		r := c.fresh("err", "Int")
		st.assume("(> " + r + " 1000)")
		u.c.n++
		x := fmt.Sprintf("x_q%d", u.c.n)
		st.assume(fmt.Sprintf("(forall ((%s Int)) (not (errwraps %s %s)))", x, r, x))
		return Term{S: r, T: sig.Results().At(0).Type()}, true
	case "google.golang.org/grpc/status.Errorf", "google.golang.org/grpc/status.Error":
		// documented: returns nil exactly when the code is codes.OK (0); otherwise a fresh error wrapping nothing of ours
		r := c.fresh("err", "Int")
		code := ca.args[0].S
		zero := "0"
		if c.bv {
			zero = c.constInt(big.NewInt(0), 32, false)
		}
		st.assume(ite(eq(code, zero), eq(r, "0"), "(> "+r+" 1000)"))
		u.c.n++
		xq := fmt.Sprintf("x_q%d", u.c.n)
		st.assume(fmt.Sprintf("(forall ((%s Int)) (not (errwraps %s %s)))", xq, r, xq))
		return Term{S: r, T: sig.Results().At(0).Type()}, true
	case "fmt.Errorf":
		r := c.fresh("err", "Int")
		st.assume("(> " + r + " 1000)")
		// %w: wraps the error-typed arguments
		var inner []string
		wraps := false
		if len(e.Args) > 0 {
			if tv, ok := u.info.Types[e.Args[0]]; ok && tv.Value != nil {
				wraps = strings.Contains(tv.Value.ExactString(), "%w")
			}
		}
		if wraps {
			for _, a := range e.Args[1:] {
				if t := u.typeOf(a); t != nil && isErrorType(t) {
					inner = append(inner, u.eval(st, a).S)
				}
			}
		}
		u.c.n++
		x := fmt.Sprintf("x_q%d", u.c.n)
		var alts []string
		for _, in := range inner {
			alts = append(alts, eq(in, x), fmt.Sprintf("(errwraps %s %s)", in, x))
		}
		st.assume(fmt.Sprintf("(forall ((%s Int)) (= (errwraps %s %s) %s))", x, r, x, or(alts...)))
		return Term{S: r, T: sig.Results().At(0).Type()}, true
	case "errors.Is":
		a, b := ca.args[0], ca.args[1]
		return Term{S: or(eq(a.S, b.S), and(not(eq(a.S, "0")), fmt.Sprintf("(errwraps %s %s)", a.S, b.S))), T: boolT}, true
	case "bytes.Equal":
		a, b := ca.args[0], ca.args[1]
		r := c.fresh("beq", "Bool")
		u.c.n++
		k := fmt.Sprintf("k_q%d", u.c.n)
		ba, bb := u.sliceBlock(st, a), u.sliceBlock(st, b)
		same := fmt.Sprintf("(forall ((%s %s)) %s)", k, c.idxSort(), implies(and(c.idxLe(c.idxConst(0), k), c.idxLt(k, sLen(a.S))),
			eq(fmt.Sprintf("(select %s %s)", ba, c.idxAdd(sOff(a.S), k)), fmt.Sprintf("(select %s %s)", bb, c.idxAdd(sOff(b.S), k)))))
		st.assume(eq(r, and(eq(sLen(a.S), sLen(b.S)), same)))
		return Term{S: r, T: boolT}, true
	case "io.ReadFull":
		// n bytes are consumed from r (ghost position consumed(r)); err == nil <==> n == len(buf); the bytes are the
		// reader's ghost content at the old position; the position never passes the ghost size
		rd, buf := ca.args[0], ca.args[1]
		n := u.freshOf(st, types.Typ[types.Int], "n")
		err := Term{S: c.fresh("err", "Int"), T: sig.Results().At(1).Type()}
		u.declareReaderGhost()
		oldPos := u.ghostCount(st, "consumed", rd.S)
		u.havocSliceElems(st, buf)
		st.assume(and(c.idxLe(c.idxConst(0), n.S), c.idxLe(n.S, sLen(buf.S))))
		st.assume(eq(eq(err.S, "0"), eq(n.S, sLen(buf.S))))
		st.assume(u.externalErr(err.S))
		u.bumpCount(st, "consumed", rd.S, n.S, "true")
		u.readerFacts(st, rd.S, oldPos, buf, n.S)
		return Term{Tuple: []Term{n, err}}, true
	case "(*bytes.Reader).Read", "(*bufio.Reader).Read", "(io.Reader).Read":
		buf := ca.args[0]
		n := u.freshOf(st, types.Typ[types.Int], "n")
		err := Term{S: c.fresh("err", "Int"), T: sig.Results().At(1).Type()}
		u.declareReaderGhost()
		u.checkNonNilTerm(st, *ca.recv, e, "receiver of "+u.exprTextShort(e.Fun))
		oldPos := u.ghostCount(st, "consumed", ca.recv.S)
		u.havocSliceElems(st, buf)
		st.assume(and(c.idxLe(c.idxConst(0), n.S), c.idxLe(n.S, sLen(buf.S))))
		st.assume(u.externalErr(err.S))
		// a Reader may return fewer bytes than asked for without an error (only 0 bytes needs one, for non-empty buffers)
		st.assume(implies(and(eq(n.S, c.idxConst(0)), c.idxLt(c.idxConst(0), sLen(buf.S))), not(eq(err.S, "0"))))
		u.bumpCount(st, "consumed", ca.recv.S, n.S, "true")
		u.readerFacts(st, ca.recv.S, oldPos, buf, n.S)
		return Term{Tuple: []Term{n, err}}, true
	case "(*bufio.Reader).ReadByte", "(*bytes.Reader).ReadByte", "(io.ByteReader).ReadByte":
		bt := u.freshOf(st, types.Typ[types.Uint8], "b")
		err := Term{S: c.fresh("err", "Int"), T: sig.Results().At(1).Type()}
		u.declareReaderGhost()
		u.checkNonNilTerm(st, *ca.recv, e, "receiver of "+u.exprTextShort(e.Fun))
		oldPos := u.ghostCount(st, "consumed", ca.recv.S)
		st.assume(u.externalErr(err.S))
		u.bumpCount(st, "consumed", ca.recv.S, c.idxConst(1), eq(err.S, "0"))
		posI := oldPos
		if c.bv {
			posI = "((_ int2bv 64) " + oldPos + ")"
		}
		st.assume(implies(eq(err.S, "0"), and(eq(bt.S, fmt.Sprintf("(select (rd.content %s) %s)", ca.recv.S, posI)), "(< "+oldPos+" "+u.sizeAsInt("(rd.size "+ca.recv.S+")")+")")))
		return Term{Tuple: []Term{bt, err}}, true
	case "github.com/filecoin-project/go-leb128.FromUInt64":
		// unsigned LEB128 == Go uvarint: fresh slice holding the canonical encoding
		x := ca.args[0]
		n := u.uvlen(x.S)
		blk := c.fresh("blk", fmt.Sprintf("(Array %s %s)", c.idxSort(), c.sortOf(u.byteT())))
		st.assume(u.uvarintAtFacts(blk, c.idxConst(0), x.S))
		r := u.allocBlock(st, u.byteT(), blk)
		return Term{S: fmt.Sprintf("(mk_slice %s %s %s %s)", r, c.idxConst(0), n, n), T: sig.Results().At(0).Type()}, true
	case "(github.com/ipfs/go-cid.Cid).String", "(github.com/ipfs/go-cid.Cid).KeyString":
		// the text / binary string form of a CID is an INJECTIVE pure function of the CID value (multibase encoding of its
		// bytes; KeyString is the bytes themselves): cid.str(c) / cid.keystr(c), with the inverse cid.ofstr
		fn := "cid.str"
		if callee.Name() == "KeyString" {
			fn = "cid.keystr"
		}
		cs := c.sortOf(ca.recv.T)
		c.declareFun(fn, "("+cs+") Str")
		c.declareFun(fn+".inv", "(Str) "+cs)
		c.declareRaw(fn+".injective", fmt.Sprintf("(assert (forall ((x %s)) (! (= (%s.inv (%s x)) x) :pattern ((%s x)))))", cs, fn, fn, fn))
		r := Term{S: fmt.Sprintf("(%s %s)", fn, ca.recv.S), T: sig.Results().At(0).Type()}
		st.assume(c.idxLe(c.idxConst(0), "(gstr.len "+r.S+")"))
		return r, true
	case "strings.HasPrefix", "strings.HasSuffix":
		// deterministic; true only if the string is at least as long as the prefix / suffix
		fn := "gstr." + strings.ToLower(callee.Name())
		c.declareFun(fn, "(Str Str) Bool")
		r := fmt.Sprintf("(%s %s %s)", fn, ca.args[0].S, ca.args[1].S)
		st.assume(implies(r, c.idxLe("(gstr.len "+ca.args[1].S+")", "(gstr.len "+ca.args[0].S+")")))
		return Term{S: r, T: boolT}, true
	case "strings.TrimRight", "strings.TrimLeft", "strings.Trim", "strings.TrimSpace", "strings.TrimPrefix", "strings.TrimSuffix":
		// a substring: never longer than the argument
		r := u.freshOf(st, sig.Results().At(0).Type(), "trim")
		st.assume(and(c.idxLe(c.idxConst(0), "(gstr.len "+r.S+")"), c.idxLe("(gstr.len "+r.S+")", "(gstr.len "+ca.args[0].S+")")))
		return r, true
	case "(github.com/ipfs/go-cid.Cid).Equals":
		// go-cid: func (c Cid) Equals(o Cid) bool { return c == o }
		return Term{S: eq(ca.recv.S, ca.args[0].S), T: boolT}, true
	case "(github.com/ipfs/go-cid.Cid).Defined":
		// go-cid: func (c Cid) Defined() bool { return c.str != "" } ; Undef = Cid{}
		return Term{S: not(eq(ca.recv.S, u.zeroOf(ca.recv.T).S)), T: boolT}, true
	case "(github.com/ipfs/go-cid.Cid).Bytes", "(github.com/ipfs/go-cid.Cid).ByteLen":
		// the byte form of a CID is a pure function of the CID value: cid.bytelen(c) bytes cid.byte(c, k)
		u.declareCidGhost()
		cv := ca.recv.S
		ln := "(cid.bytelen " + cv + ")"
		st.assume(c.idxLe(c.idxConst(0), ln))
		if callee.Name() == "ByteLen" {
			return Term{S: ln, T: types.Typ[types.Int]}, true
		}
		r := u.allocBlock(st, u.byteT(), "(cid.bytes "+cv+")")
		return Term{S: fmt.Sprintf("(mk_slice %s %s %s %s)", r, c.idxConst(0), ln, ln), T: sig.Results().At(0).Type()}, true
	case "(context.Context).Err":
		// monotone: once a context reports an error it keeps reporting one
		h := u.ghostHeap("ctxdone")
		cur := u.heapRead(st, h)
		old := fmt.Sprintf("(select %s %s)", cur, ca.recv.S)
		nv := c.fresh("ctxdone", "Int")
		st.assume(and("(<= 0 "+nv+")", "(<= "+nv+" 1)", "(>= "+nv+" "+old+")"))
		u.heapWrite(st, h, fmt.Sprintf("(store %s %s %s)", cur, ca.recv.S, nv))
		err := Term{S: c.fresh("err", "Int"), T: sig.Results().At(0).Type()}
		st.assume(u.externalErr(err.S))
		st.assume(eq(not(eq(err.S, "0")), eq(nv, "1")))
		return err, true
	case "(*bufio.Reader).Peek":
		// (buf, err): no bytes consumed; err == nil ==> len(buf) == n and buf is the content at the current position
		n := ca.args[0]
		u.declareReaderGhost()
		u.checkNonNilTerm(st, *ca.recv, e, "receiver of "+u.exprTextShort(e.Fun))
		pos := u.ghostCount(st, "consumed", ca.recv.S)
		buf := u.freshOf(st, sig.Results().At(0).Type(), "peek")
		err := Term{S: c.fresh("err", "Int"), T: sig.Results().At(1).Type()}
		st.assume(u.externalErr(err.S))
		nI := u.toIdx(n)
		st.assume(implies(eq(err.S, "0"), eq(sLen(buf.S), nI)))
		st.assume(implies(not(eq(err.S, "0")), c.idxLt(sLen(buf.S), nI)))
		if !c.bv {
			st.assume(implies(and(eq(err.S, "0"), c.idxLe(c.idxConst(0), nI)), "(<= (+ "+pos+" "+nI+") (rd.size "+ca.recv.S+"))"))
			u.c.n++
			k := fmt.Sprintf("k_q%d", u.c.n)
			pblk := u.sliceBlock(st, buf)
			rel := "(- " + k + " " + sOff(buf.S) + ")"
			st.assume(fmt.Sprintf("(forall ((%s Int)) (! %s :pattern ((select %s %s))))", k, implies(and("(<= 0 "+rel+")", "(< "+rel+" "+sLen(buf.S)+")"),
				eq(fmt.Sprintf("(select %s %s)", pblk, k), fmt.Sprintf("(select (rd.content %s) (+ %s %s))", ca.recv.S, pos, rel))), pblk, k))
		}
		return Term{Tuple: []Term{buf, err}}, true
	case "github.com/ipfs/go-cid.CidFromReader":
		// (n, c, err): exactly n bytes are taken from r on every path (byte-wise reads, no read-ahead); success needs n >= 1
		rd := ca.args[0]
		u.declareReaderGhost()
		pos := u.ghostCount(st, "consumed", rd.S)
		n := u.freshOf(st, types.Typ[types.Int], "cidn")
		cv := u.freshOf(st, sig.Results().At(1).Type(), "cid")
		err := Term{S: c.fresh("err", "Int"), T: sig.Results().At(2).Type()}
		st.assume(u.externalErr(err.S))
		st.assume(c.idxLe(c.idxConst(0), n.S))
		st.assume(implies(eq(err.S, "0"), c.idxLe(c.idxConst(1), n.S)))
		u.bumpCount(st, "consumed", rd.S, n.S, "true")
		if !c.bv {
			st.assume("(<= (+ " + pos + " " + n.S + ") (rd.size " + rd.S + "))")
		}
		return Term{Tuple: []Term{n, cv, err}}, true
	case "io.CopyN":
		// (written, err): n >= 0: 0 <= written <= n, err == nil <==> written == n; n < 0: (0, nil)
		dst, src, n := ca.args[0], ca.args[1], ca.args[2]
		u.declareReaderGhost()
		pos := u.ghostCount(st, "consumed", src.S)
		w := u.freshOf(st, types.Typ[types.Int64], "copied")
		err := Term{S: c.fresh("err", "Int"), T: sig.Results().At(1).Type()}
		st.assume(u.externalErr(err.S))
		zero64 := c.constInt(big.NewInt(0), 64, true)
		neg := u.binop(nil, token.LSS, n, Term{S: zero64, T: n.T, K: big.NewInt(0)}, nil, e, true).S
		st.assume(implies(neg, and(eq(w.S, zero64), eq(err.S, "0"))))
		le := u.binop(nil, token.LEQ, w, n, nil, e, true).S
		ge0 := u.binop(nil, token.GEQ, w, Term{S: zero64, T: w.T, K: big.NewInt(0)}, nil, e, true).S
		st.assume(implies(not(neg), and(ge0, le, eq(eq(err.S, "0"), eq(w.S, n.S)))))
		wi := u.toIdx(w)
		u.bumpCount(st, "consumed", src.S, wi, "true")
		u.bumpCount(st, "written", dst.S, wi, "true")
		if !c.bv {
			st.assume("(<= (+ " + pos + " " + wi + ") (rd.size " + src.S + "))")
		}
		return Term{Tuple: []Term{w, err}}, true
	case "encoding/binary.ReadUvarint":
		if r, ok := u.readUvarintModel(st, e, ca, sig); ok {
			return r, true
		}
	case "(*bytes.Reader).Len":
		u.declareReaderGhost()
		r := u.freshOf(st, types.Typ[types.Int], "rlen")
		pos := u.ghostCount(st, "consumed", ca.recv.S)
		if !c.bv {
			st.assume(eq(r.S, "(- (rd.size "+ca.recv.S+") "+pos+")"))
		}
		st.assume(c.idxLe(c.idxConst(0), r.S))
		return r, true
	case "bytes.NewReader":
		b := ca.args[0]
		u.declareReaderGhost()
		nr := u.newRef(st)
		c.declareFun("rd.faithful", "(Int) Bool")
		st.assume("(rd.faithful " + nr + ")")
		st.assume(eq("(rd.size "+nr+")", sLen(b.S)))
		h := u.ghostHeap("consumed")
		u.heapWrite(st, h, fmt.Sprintf("(store %s %s 0)", u.heapRead(st, h), nr))
		u.c.n++
		k := fmt.Sprintf("k_q%d", u.c.n)
		st.assume(fmt.Sprintf("(forall ((%s %s)) %s)", k, c.idxSort(), implies(and(c.idxLe(c.idxConst(0), k), c.idxLt(k, sLen(b.S))),
			eq(fmt.Sprintf("(select (rd.content %s) %s)", nr, k), fmt.Sprintf("(select %s %s)", u.sliceBlock(st, b), c.idxAdd(sOff(b.S), k))))))
		return Term{S: nr, T: sig.Results().At(0).Type()}, true
	case "io.NewSectionReader":
		r, off, n := ca.args[0], ca.args[1], ca.args[2]
		nr := u.newRef(st)
		u.declareReaderGhost()
		// content(nr)[i] == content(r)[off+i]; size(nr) == n clipped to what r has
		u.c.n++
		k := fmt.Sprintf("k_q%d", u.c.n)
		st.assume(fmt.Sprintf("(forall ((%s %s)) (= (select (rd.content %s) %s) (select (rd.content %s) %s)))", k, c.idxSort(), nr, k, r.S, c.idxAdd(u.toIdx(off), k)))
		avail := c.idxSub("(rd.size "+r.S+")", u.toIdx(off))
		zero := c.idxConst(0)
		clip := ite(c.idxLt(avail, zero), zero, ite(c.idxLt(avail, u.toIdx(n)), avail, u.toIdx(n)))
		st.assume(implies(and(c.idxLe(zero, u.toIdx(off)), c.idxLe(zero, u.toIdx(n))), eq("(rd.size "+nr+")", clip)))
		c.declareFun("rd.faithful", "(Int) Bool")
		st.assume(implies("(rd.faithful "+r.S+")", "(rd.faithful "+nr+")"))
		return Term{S: nr, T: sig.Results().At(0).Type()}, true
	case "(*sync.RWMutex).RLock", "(*sync.RWMutex).Lock", "(*sync.RWMutex).RUnlock", "(*sync.RWMutex).Unlock",
		"(*sync.Mutex).Lock", "(*sync.Mutex).Unlock":
		u.lockOp(st, e, callee.Name(), ca)
		return Term{Tuple: []Term{}}, true
	}
	switch full {
	case "(*bufio.Writer).Write", "(*os.File).Write", "(*bytes.Buffer).Write", "(io.Writer).Write":
		// n, err: err == nil ==> n == len(p); the writer's ghost count grows by n
		p := ca.args[0]
		n := u.freshOf(st, types.Typ[types.Int], "n")
		err := Term{S: c.fresh("err", "Int"), T: sig.Results().At(1).Type()}
		st.assume(and(c.idxLe(c.idxConst(0), n.S), c.idxLe(n.S, sLen(p.S))))
		st.assume(implies(eq(err.S, "0"), eq(n.S, sLen(p.S))))
		st.assume(u.externalErr(err.S))
		u.checkNonNilTerm(st, *ca.recv, e, "receiver of "+u.exprTextShort(e.Fun))
		u.bumpCount(st, "written", ca.recv.S, n.S, "true")
		return Term{Tuple: []Term{n, err}}, true
	case "(*bufio.Writer).WriteByte", "(*bytes.Buffer).WriteByte":
		err := Term{S: c.fresh("err", "Int"), T: sig.Results().At(0).Type()}
		st.assume(u.externalErr(err.S))
		u.bumpCount(st, "written", ca.recv.S, c.idxConst(1), eq(err.S, "0"))
		return err, true
	case "(*bufio.Writer).Flush":
		err := Term{S: c.fresh("err", "Int"), T: sig.Results().At(0).Type()}
		st.assume(u.externalErr(err.S))
		return err, true
	case "encoding/binary.Write":
		// fixed-size data: the writer's count grows by the encoded size on success
		if len(e.Args) == 3 {
			if sz, ok := fixedSize(u.typeOf(e.Args[2])); ok {
				err := Term{S: c.fresh("err", "Int"), T: sig.Results().At(0).Type()}
				st.assume(u.externalErr(err.S))
				u.bumpCount(st, "written", ca.args[0].S, c.idxConst(sz), eq(err.S, "0"))
				return err, true
			}
		}
	}
	// ReadAt on anything that is not a contracted repo type: the io.ReaderAt model
	if callee.Name() == "ReadAt" && sig.Params().Len() == 2 && sig.Results().Len() == 2 && ca.recv != nil {
		if _, ok := sig.Params().At(0).Type().Underlying().(*types.Slice); ok {
			return u.readAtModel(st, e, *ca.recv, ca.args[0], ca.args[1], sig), true
		}
	}
	// generic external function: writes only through its arguments
	if callee.Pkg() != nil && !u.eng.isRepoPkg(callee.Pkg().Path()) {
		return u.externalCall(st, e, callee, ca), true
	}
	return Term{}, false
}

// ghost byte counters: bytes accepted by a writer / bytes consumed from a reader (heaps so that havoc and frames apply)
func (u *Unit) ghostHeap(name string) string {
	h := "HG_" + name
	if _, ok := u.c.heapNames[h]; !ok {
		u.c.heapNames[h] = "(Array Int Int)"
	}
	return h
}

func (u *Unit) ghostCount(st *State, name, ref string) string {
	return fmt.Sprintf("(select %s %s)", u.heapRead(st, u.ghostHeap(name)), ref)
}

// bumpCount: counter(ref) grows by exactly `by` when ok holds, by 0..by otherwise.
func (u *Unit) bumpCount(st *State, name, ref, by, ok string) {
	h := u.ghostHeap(name)
	cur := u.heapRead(st, h)
	old := fmt.Sprintf("(select %s %s)", cur, ref)
	nv := u.c.fresh("cnt", "Int")
	byI := by
	if u.c.bv {
		byI = "(bv2nat " + by + ")"
	}
	st.assume(implies(ok, eq(nv, "(+ "+old+" "+byI+")")))
	st.assume(and("(<= "+old+" "+nv+")", "(<= "+nv+" (+ "+old+" "+byI+"))"))
	u.heapWrite(st, h, fmt.Sprintf("(store %s %s %s)", cur, ref, nv))
}

func (u *Unit) declareCidGhost() {
	c := u.c
	c.declareFun("cid.bytelen", "(S_cid_Cid) "+c.idxSort())
	c.declareFun("cid.bytes", fmt.Sprintf("(S_cid_Cid) (Array %s %s)", c.idxSort(), c.sortOf(u.byteT())))
}

func (u *Unit) declareReaderGhost() {
	c := u.c
	c.declareFun("rd.size", "(Int) "+c.idxSort())
	c.declareFun("rd.content", fmt.Sprintf("(Int) (Array %s %s)", c.idxSort(), c.sortOf(u.byteT())))
}

// readUvarintModel executes the algorithm of encoding/binary.ReadUvarint (Go 1.21+) with up to ten calls of the reader's
// ReadByte: the contract of the repository's ReadByte if the argument is a pointer to a repository type, the
// io.ByteReader model otherwise.
func (u *Unit) readUvarintModel(st *State, e *ast.CallExpr, ca callArgs, sig *types.Signature) (Term, bool) {
	c := u.c
	if len(ca.raw) != 1 || c.bv {
		return Term{}, false
	}
	x := ca.raw[0]
	var readByte func(st *State) (Term, Term, bool)
	if pt, ok := x.T.Underlying().(*types.Pointer); ok {
		obj, _, _ := types.LookupFieldOrMethod(x.T, true, u.pkg.Types, "ReadByte")
		f, isF := obj.(*types.Func)
		if !isF {
			return Term{}, false
		}
		ct, cset := u.eng.contractFor(f)
		if ct == nil {
			return Term{}, false
		}
		_ = pt
		readByte = func(st *State) (Term, Term, bool) {
			recv := x
			r := u.applyContract(st, e, f, ct, cset, callArgs{recv: &recv})
			if len(r.Tuple) != 2 {
				return Term{}, Term{}, false
			}
			return r.Tuple[0], r.Tuple[1], true
		}
	} else {
		readByte = func(st *State) (Term, Term, bool) {
			u.declareReaderGhost()
			bt := u.freshOf(st, types.Typ[types.Uint8], "b")
			err := Term{S: c.fresh("err", "Int"), T: sig.Results().At(1).Type()}
			oldPos := u.ghostCount(st, "consumed", x.S)
			st.assume(u.externalErr(err.S))
			u.bumpCount(st, "consumed", x.S, c.idxConst(1), eq(err.S, "0"))
			st.assume(implies(eq(err.S, "0"), and(eq(bt.S, fmt.Sprintf("(select (rd.content %s) %s)", x.S, oldPos)), "(< "+oldPos+" (rd.size "+x.S+"))")))
			return bt, err, true
		}
	}
	vVar := types.NewVar(e.Pos(), u.pkg.Types, "uvarint_v", types.Typ[types.Uint64])
	eVar := types.NewVar(e.Pos(), u.pkg.Types, "uvarint_err", sig.Results().At(1).Type())
	base := st.clone()
	cur := st.clone()
	var exits []*State
	acc := "0"
	eof := u.sentinel("gv_io_EOF")
	ueof := u.sentinel("gv_io_ErrUnexpectedEOF")
	exit := func(s *State, v, err string) {
		s.vars[vVar] = Term{S: v, T: vVar.Type()}
		s.vars[eVar] = Term{S: err, T: eVar.Type()}
		exits = append(exits, s)
	}
	for k := 0; k < 10; k++ {
		b, err, ok := readByte(cur)
		if !ok {
			return Term{}, false
		}
		// read error
		se := cur.clone()
		se.assume(not(eq(err.S, "0")))
		ev := err.S
		if k > 0 {
			ev = ite(eq(err.S, eof), ueof, err.S)
		}
		exit(se, acc, ev)
		cur.assume(eq(err.S, "0"))
		st.assume("true")
		u.assumeRange(cur, b)
		// final byte
		sf := cur.clone()
		sf.assume("(< " + b.S + " 128)")
		val := fmt.Sprintf("(+ %s (* %s %s))", acc, b.S, pow2(7*k).String())
		if k == 9 {
			ovf := sf.clone()
			ovf.assume("(> " + b.S + " 1)")
			oe := c.fresh("err", "Int")
			ovf.assume("(> " + oe + " 1000)")
			exit(ovf, acc, oe)
			sf.assume("(<= " + b.S + " 1)")
		}
		nv := c.fresh("uv", "Int")
		sf.assume(eq(nv, val))
		exit(sf, nv, "0")
		// continuation byte
		cur.assume("(>= " + b.S + " 128)")
		na := c.fresh("uvacc", "Int")
		cur.assume(eq(na, fmt.Sprintf("(+ %s (* (mod %s 128) %s))", acc, b.S, pow2(7*k).String())))
		acc = na
	}
	oe := c.fresh("err", "Int")
	cur.assume("(> " + oe + " 1000)")
	exit(cur, acc, oe)
	merged := u.merge(base, exits)
	if merged == nil {
		return Term{}, false
	}
	v := merged.vars[vVar]
	er := merged.vars[eVar]
	delete(merged.vars, vVar)
	delete(merged.vars, eVar)
	*st = *merged
	v.T = types.Typ[types.Uint64]
	// the accumulated value fits 64 bits (at most 9*7+1 bits are taken)
	st.assume(u.rangeFacts(st, v.S, v.T, 0))
	return Term{Tuple: []Term{v, er}}, true
}

// sortSliceModel: sort.Slice(s, func(i, j int) bool { return s[i] OP s[j] }) (or s[i].F OP s[j].F) with OP in {<, >} on integers.
// Trusted: the result is ordered accordingly and has exactly the elements of the input (as a set, both directions).
func (u *Unit) sortSliceModel(st *State, e *ast.CallExpr, ca callArgs) (Term, bool) {
	if len(e.Args) != 2 {
		return Term{}, false
	}
	fl, ok := ast.Unparen(e.Args[1]).(*ast.FuncLit)
	if !ok || len(fl.Body.List) != 1 || fl.Type.Params.NumFields() != 2 {
		return Term{}, false
	}
	ret, ok := fl.Body.List[0].(*ast.ReturnStmt)
	if !ok || len(ret.Results) != 1 {
		return Term{}, false
	}
	cmp, ok := ast.Unparen(ret.Results[0]).(*ast.BinaryExpr)
	if !ok || (cmp.Op != token.LSS && cmp.Op != token.GTR) {
		return Term{}, false
	}
	var names []string
	for _, f := range fl.Type.Params.List {
		for _, n := range f.Names {
			names = append(names, n.Name)
		}
	}
	if len(names) != 2 {
		return Term{}, false
	}
	// operand shape: S[i] or S[i].F
	shape := func(x ast.Expr, idx string) (string, string, bool) {
		field := ""
		x = ast.Unparen(x)
		if se, ok := x.(*ast.SelectorExpr); ok {
			field = se.Sel.Name
			x = ast.Unparen(se.X)
		}
		ix, ok := x.(*ast.IndexExpr)
		if !ok {
			return "", "", false
		}
		id, ok := ast.Unparen(ix.Index).(*ast.Ident)
		if !ok || id.Name != idx {
			return "", "", false
		}
		return u.exprText(ix.X), field, true
	}
	s1, f1, ok1 := shape(cmp.X, names[0])
	s2, f2, ok2 := shape(cmp.Y, names[1])
	if !ok1 || !ok2 || s1 != s2 || f1 != f2 || s1 != u.exprText(e.Args[0]) {
		return Term{}, false
	}
	return u.sortCore(st, e, f1, cmp.Op, fl)
}

// sortCore: the slice e.Args[0] is sorted by the integer key `element` (f1 == "") or `element.f1`, ascending for op LSS,
// descending for GTR (shared by the sort.Slice and slices.Sort models).
func (u *Unit) sortCore(st *State, e *ast.CallExpr, f1 string, op token.Token, fl *ast.FuncLit) (Term, bool) {
	c := u.c
	s := u.eval(st, e.Args[0]) // the argument is passed as `any`: take the slice itself
	if s.T == nil {
		return Term{}, false
	}
	sl, ok := s.T.Underlying().(*types.Slice)
	if !ok {
		return Term{}, false
	}
	keyOf := func(elem string) (string, types.Type, bool) {
		if f1 == "" {
			return elem, sl.Elem(), true
		}
		et := sl.Elem()
		if pt, isPtr := et.Underlying().(*types.Pointer); isPtr {
			// []*T sorted by a field of the pointee: the key is read from the current cell heap (the comparator
			// dereferences every element, so the elements are non-nil wherever the real sort returns)
			if _, isStruct := pt.Elem().Underlying().(*types.Struct); !isStruct {
				return "", nil, false
			}
			cell := u.loadCell(st, pt.Elem(), elem)
			elem, et = cell.S, pt.Elem()
		}
		stt, ok := et.Underlying().(*types.Struct)
		if !ok {
			return "", nil, false
		}
		for i := 0; i < stt.NumFields(); i++ {
			if stt.Field(i).Name() == f1 {
				return u.fieldGet(Term{S: elem, T: et}, i).S, stt.Field(i).Type(), true
			}
		}
		return "", nil, false
	}
	_, kt, ok := keyOf("x")
	if !ok {
		return Term{}, false
	}
	_, signed, isInt := intInfo(kt)
	if !isInt {
		return Term{}, false
	}
	oldBlk := u.sliceBlock(st, s)
	u.havocSliceElems(st, s)
	newBlk := u.sliceBlock(st, s)
	at := func(blk, i string) string { return fmt.Sprintf("(select %s %s)", blk, c.idxAdd(sOff(s.S), i)) }
	u.c.n++
	a, b := fmt.Sprintf("a_q%d", u.c.n), fmt.Sprintf("b_q%d", u.c.n)
	ka, _, _ := keyOf(at(newBlk, a))
	kb, _, _ := keyOf(at(newBlk, b))
	var le string
	if c.bv {
		bop := "bvule"
		if signed {
			bop = "bvsle"
		}
		le = fmt.Sprintf("(%s %s %s)", bop, ka, kb)
		if op == token.GTR {
			le = fmt.Sprintf("(%s %s %s)", bop, kb, ka)
		}
	} else {
		le = fmt.Sprintf("(<= %s %s)", ka, kb)
		if op == token.GTR {
			le = fmt.Sprintf("(>= %s %s)", ka, kb)
		}
	}
	zero := c.idxConst(0)
	st.assume(fmt.Sprintf("(forall ((%s %s) (%s %s)) %s)", a, c.idxSort(), b, c.idxSort(),
		implies(and(c.idxLe(zero, a), c.idxLt(a, b), c.idxLt(b, sLen(s.S))), le)))
	// same elements, both directions (triggered only by reads of the respective array); opt-in (`option sort-members`)
	// because the extra instances slow down proofs that only need the order
	if u.ct != nil && (u.ct.Options["sort-members"] || u.ct.Options["sort-members-fwd"]) {
		st.assume(fmt.Sprintf("(forall ((%s %s)) (! %s :pattern (%s)))", a, c.idxSort(), implies(and(c.idxLe(zero, a), c.idxLt(a, sLen(s.S))),
			fmt.Sprintf("(exists ((%s %s)) %s)", b, c.idxSort(), and(c.idxLe(zero, b), c.idxLt(b, sLen(s.S)), eq(at(newBlk, a), at(oldBlk, b))))), at(newBlk, a)))
	}
	if u.ct != nil && (u.ct.Options["sort-members"] || u.ct.Options["sort-members-bwd"]) {
		st.assume(fmt.Sprintf("(forall ((%s %s)) (! %s :pattern (%s)))", a, c.idxSort(), implies(and(c.idxLe(zero, a), c.idxLt(a, sLen(s.S))),
			fmt.Sprintf("(exists ((%s %s)) %s)", b, c.idxSort(), and(c.idxLe(zero, b), c.idxLt(b, sLen(s.S)), eq(at(oldBlk, a), at(newBlk, b))))), at(oldBlk, a)))
	}
	if u.ct != nil && u.ct.Options["sort-perm"] {
		u.sortPermFacts(st, at, oldBlk, newBlk, sLen(s.S))
	}
	// consequence of being a permutation, stated for the solver: pairwise-distinct sort keys stay pairwise distinct
	oka, _, _ := keyOf(at(oldBlk, a))
	okb, _, _ := keyOf(at(oldBlk, b))
	rng := and(c.idxLe(zero, a), c.idxLt(a, b), c.idxLt(b, sLen(s.S)))
	if u.ct == nil || !u.ct.Options["sort-no-distinct"] {
		st.assume(implies(fmt.Sprintf("(forall ((%s %s) (%s %s)) %s)", a, c.idxSort(), b, c.idxSort(), implies(rng, not(eq(oka, okb)))),
			fmt.Sprintf("(forall ((%s %s) (%s %s)) %s)", a, c.idxSort(), b, c.idxSort(), implies(rng, not(eq(ka, kb))))))
	}
	if fl != nil {
		u.eng.noteFuncLit(u, fl)
	}
	return Term{Tuple: []Term{}}, true
}

// sortPermFacts (`option sort-perm`): the sorted slice is a permutation of the input, stated with one pair of
// uninterpreted index maps per sort call (loop-free for E-matching, unlike the exists-based membership axioms):
// new[a] == old[perm(a)], old[a] == new[inv(a)], both maps stay in range and are inverse to each other.
func (u *Unit) sortPermFacts(st *State, at func(blk, i string) string, oldBlk, newBlk, ln string) {
	c := u.c
	u.c.n++
	id := u.c.n
	perm, inv := fmt.Sprintf("sortperm%d", id), fmt.Sprintf("sortinv%d", id)
	is := c.idxSort()
	c.declareFun(perm, "("+is+") "+is)
	c.declareFun(inv, "("+is+") "+is)
	a := fmt.Sprintf("a_q%d", id)
	zero := c.idxConst(0)
	rng := and(c.idxLe(zero, a), c.idxLt(a, ln))
	pa, ia := fmt.Sprintf("(%s %s)", perm, a), fmt.Sprintf("(%s %s)", inv, a)
	st.assume(fmt.Sprintf("(forall ((%s %s)) (! %s :pattern (%s)))", a, is, implies(rng, and(eq(at(newBlk, a), at(oldBlk, pa)), c.idxLe(zero, pa), c.idxLt(pa, ln), eq(fmt.Sprintf("(%s %s)", inv, pa), a))), at(newBlk, a)))
	st.assume(fmt.Sprintf("(forall ((%s %s)) (! %s :pattern (%s)))", a, is, implies(rng, and(eq(at(oldBlk, a), at(newBlk, ia)), c.idxLe(zero, ia), c.idxLt(ia, ln), eq(fmt.Sprintf("(%s %s)", perm, ia), a))), at(oldBlk, a)))
}

// sortSliceGeneric: sort.Slice(s, less) with a side-effect free comparator of a shape the order model above does not
// understand (a fnpure function parameter, or a literal that only reads and calls fnpure parameters / bytes.Compare).
// Trusted: sort.Slice only swaps elements of s and calls less; nothing is said about the resulting order. With
// `option sort-members[-fwd|-bwd]` the result has the same elements as the input.
func (u *Unit) sortSliceGeneric(st *State, e *ast.CallExpr, ca callArgs) (Term, bool) {
	c := u.c
	if len(e.Args) != 2 || !u.pureComparator(e.Args[1]) {
		return Term{}, false
	}
	s := u.eval(st, e.Args[0])
	if s.T == nil {
		return Term{}, false
	}
	if _, ok := s.T.Underlying().(*types.Slice); !ok {
		return Term{}, false
	}
	oldBlk := u.sliceBlock(st, s)
	u.havocSliceElems(st, s)
	newBlk := u.sliceBlock(st, s)
	at := func(blk, i string) string { return fmt.Sprintf("(select %s %s)", blk, c.idxAdd(sOff(s.S), i)) }
	u.c.n++
	a, b := fmt.Sprintf("a_q%d", u.c.n), fmt.Sprintf("b_q%d", u.c.n)
	zero := c.idxConst(0)
	if u.ct != nil && (u.ct.Options["sort-members"] || u.ct.Options["sort-members-fwd"]) {
		st.assume(fmt.Sprintf("(forall ((%s %s)) (! %s :pattern (%s)))", a, c.idxSort(), implies(and(c.idxLe(zero, a), c.idxLt(a, sLen(s.S))),
			fmt.Sprintf("(exists ((%s %s)) %s)", b, c.idxSort(), and(c.idxLe(zero, b), c.idxLt(b, sLen(s.S)), eq(at(newBlk, a), at(oldBlk, b))))), at(newBlk, a)))
	}
	if u.ct != nil && (u.ct.Options["sort-members"] || u.ct.Options["sort-members-bwd"]) {
		st.assume(fmt.Sprintf("(forall ((%s %s)) (! %s :pattern (%s)))", a, c.idxSort(), implies(and(c.idxLe(zero, a), c.idxLt(a, sLen(s.S))),
			fmt.Sprintf("(exists ((%s %s)) %s)", b, c.idxSort(), and(c.idxLe(zero, b), c.idxLt(b, sLen(s.S)), eq(at(oldBlk, a), at(newBlk, b))))), at(oldBlk, a)))
	}
	if u.ct != nil && u.ct.Options["sort-perm"] {
		u.sortPermFacts(st, at, oldBlk, newBlk, sLen(s.S))
	}
	if fl, ok := ast.Unparen(e.Args[1]).(*ast.FuncLit); ok {
		u.eng.noteFuncLit(u, fl)
	}
	u.c.note("sort.Slice with a side-effect free comparator: elements of the slice permuted, order not modelled (trusted library model)")
	return Term{Tuple: []Term{}}, true
}

// pureComparator: the comparator handed to sort.Slice cannot write anything: a function parameter declared `fnpure`, or a
// literal whose body is a single return of an expression built from reads, operators and calls of fnpure parameters,
// bytes.Compare / bytes.Equal, or such literals bound to local variables.
func (u *Unit) pureComparator(x ast.Expr) bool {
	x = ast.Unparen(x)
	if id, ok := x.(*ast.Ident); ok {
		if u.ct != nil && u.ct.FnPure[id.Name] {
			return true
		}
		if v, ok := u.info.Uses[id].(*types.Var); ok {
			if fl := u.litOfVar[v]; fl != nil {
				return u.pureComparator(fl)
			}
		}
		return false
	}
	fl, ok := x.(*ast.FuncLit)
	if !ok {
		return false
	}
	pure := true
	var checkExpr func(n ast.Node) bool
	checkExpr = func(n ast.Node) bool {
		switch y := n.(type) {
		case *ast.CallExpr:
			fn := ast.Unparen(y.Fun)
			okCall := false
			if id, ok := fn.(*ast.Ident); ok {
				if u.ct != nil && u.ct.FnPure[id.Name] {
					okCall = true
				} else if v, ok := u.info.Uses[id].(*types.Var); ok && u.litOfVar[v] != nil && u.pureComparator(u.litOfVar[v]) {
					okCall = true
				} else if _, isType := u.info.Uses[id].(*types.TypeName); isType {
					okCall = true // conversion
				} else if b, isB := u.info.Uses[id].(*types.Builtin); isB && (b.Name() == "len" || b.Name() == "cap") {
					okCall = true
				}
			}
			if se, ok := fn.(*ast.SelectorExpr); ok {
				if f, ok := u.info.Uses[se.Sel].(*types.Func); ok {
					switch f.FullName() {
					case "bytes.Compare", "bytes.Equal", "strings.Compare":
						okCall = true
					}
				}
			}
			if callee, _ := u.staticCallee(y); callee != nil && !okCall {
				// a repository function whose (frame-checked) contract has an empty modifies list writes nothing
				if ct, _ := u.eng.contractFor(callee); ct != nil && !ct.ModifiesAll && !ct.NoFrame && !ct.Trusted && len(ct.Modifies) == 0 {
					okCall = true
				}
			}
			if !okCall {
				pure = false
			}
		case *ast.FuncLit:
			pure = false
		}
		return pure
	}
	for _, stmt := range fl.Body.List {
		switch y := stmt.(type) {
		case *ast.AssignStmt:
			// `x, ok := <pure expression>`: new locals of the literal only
			if y.Tok != token.DEFINE {
				pure = false
				break
			}
			for _, r := range y.Rhs {
				ast.Inspect(r, checkExpr)
			}
		case *ast.ReturnStmt:
			for _, r := range y.Results {
				ast.Inspect(r, checkExpr)
			}
		case *ast.IfStmt:
			// if/else chains of returns (three-way comparators)
			var walk func(is *ast.IfStmt)
			walk = func(is *ast.IfStmt) {
				if is.Init != nil {
					pure = false
				}
				ast.Inspect(is.Cond, checkExpr)
				for _, b := range is.Body.List {
					if r, ok := b.(*ast.ReturnStmt); ok {
						for _, x := range r.Results {
							ast.Inspect(x, checkExpr)
						}
					} else {
						pure = false
					}
				}
				switch el := is.Else.(type) {
				case nil:
				case *ast.IfStmt:
					walk(el)
				case *ast.BlockStmt:
					for _, b := range el.List {
						if r, ok := b.(*ast.ReturnStmt); ok {
							for _, x := range r.Results {
								ast.Inspect(x, checkExpr)
							}
						} else {
							pure = false
						}
					}
				}
			}
			walk(y)
		default:
			pure = false
		}
	}
	return pure
}

func fixedSize(t types.Type) (int64, bool) {
	if t == nil {
		return 0, false
	}
	if bits, _, ok := intInfo(t); ok {
		if b, isB := t.Underlying().(*types.Basic); isB && (b.Kind() == types.Int || b.Kind() == types.Uint || b.Kind() == types.Uintptr) {
			return 0, false
		}
		return int64(bits / 8), true
	}
	return 0, false
}

func (u *Unit) sizeAsInt(sz string) string {
	if u.c.bv {
		return "(bv2nat " + sz + ")"
	}
	return sz
}

// readerFacts: after reading n bytes at ghost position oldPos into buf: the bytes are the reader's content and the
// new position does not pass the ghost size.
func (u *Unit) readerFacts(st *State, rd, oldPos string, buf Term, n string) {
	c := u.c
	nI := n
	if c.bv {
		nI = "(bv2nat " + n + ")"
	}
	st.assume(implies(c.idxLt(c.idxConst(0), n), "(<= (+ "+oldPos+" "+nI+") "+u.sizeAsInt("(rd.size "+rd+")")+")"))
	if c.bv {
		return // content facts need an Int index: int mode only
	}
	blk := u.sliceBlock(st, buf)
	u.c.n++
	k := fmt.Sprintf("k_q%d", u.c.n)
	st.assume(fmt.Sprintf("(forall ((%s Int)) %s)", k, implies(and("(<= 0 "+k+")", "(< "+k+" "+n+")"),
		eq(fmt.Sprintf("(select %s (+ %s %s))", blk, sOff(buf.S), k), fmt.Sprintf("(select (rd.content %s) (+ %s %s))", rd, oldPos, k)))))
	rel := "(- " + k + " " + sOff(buf.S) + ")"
	st.assume(fmt.Sprintf("(forall ((%s Int)) (! %s :pattern ((select %s %s))))", k, implies(and("(<= 0 "+rel+")", "(< "+rel+" "+n+")"),
		eq(fmt.Sprintf("(select %s %s)", blk, k), fmt.Sprintf("(select (rd.content %s) (+ %s %s))", rd, oldPos, rel))), blk, k))
	u.c.n++
	k2 := fmt.Sprintf("k_q%d", u.c.n)
	st.assume(fmt.Sprintf("(forall ((%s Int)) (and (<= 0 (select (rd.content %s) %s)) (<= (select (rd.content %s) %s) 255)))", k2, rd, k2, rd, k2))
}

// externalErr: an error produced outside the repository is nil, io.EOF, io.ErrUnexpectedEOF or a non-sentinel value.
func (u *Unit) externalErr(e string) string {
	eof := u.sentinel("gv_io_EOF")
	ueof := u.sentinel("gv_io_ErrUnexpectedEOF")
	// sentinel ids: io.EOF, io.ErrUnexpectedEOF, then the repository's sentinels (<= 1000); an error made outside the
	// repository is none of the repository's sentinels and wraps none of them
	u.c.declareRaw("extwrap", "(define-fun extNoWrap ((e Int)) Bool (forall ((x Int)) (=> (and (<= 1 x) (<= x 1000)) (not (errwraps e x)))))")
	return and(or(eq(e, "0"), eq(e, eof), eq(e, ueof), "(> "+e+" 1000)"), "(extNoWrap "+e+")")
}

func (u *Unit) sentinel(name string) string {
	id, ok := u.c.errConsts[name]
	if !ok {
		id = len(u.c.errConsts) + 1
		u.c.errConsts[name] = id
	}
	return fmt.Sprint(id)
}

func (u *Unit) havocSliceElems(st *State, s Term) {
	sl, ok := s.T.Underlying().(*types.Slice)
	if !ok {
		return
	}
	c := u.c
	h := u.elemHeap(sl.Elem())
	cur := u.heapRead(st, h)
	oldBlk := fmt.Sprintf("(select %s %s)", cur, sRef(s.S))
	nb := c.fresh("blk", fmt.Sprintf("(Array %s %s)", c.idxSort(), c.sortOf(sl.Elem())))
	k := c.fresh("k", c.idxSort())
	out := or(c.idxLt(k, sOff(s.S)), c.idxLe(c.idxAdd(sOff(s.S), sLen(s.S)), k))
	u.assumeForall(st, k, c.idxSort(), implies(out, eq(fmt.Sprintf("(select %s %s)", nb, k), fmt.Sprintf("(select %s %s)", oldBlk, k))), fmt.Sprintf("(select %s %s)", nb, k))
	u.heapWrite(st, h, fmt.Sprintf("(store %s %s %s)", cur, sRef(s.S), nb))
}

// readAtModel: the io.ReaderAt contract over ghost content/size.
func (u *Unit) readAtModel(st *State, e *ast.CallExpr, r, p, off Term, sig *types.Signature) Term {
	c := u.c
	u.declareReaderGhost()
	u.checkNonNilTerm(st, r, e, u.exprText(e.Fun))
	n := u.freshOf(st, types.Typ[types.Int], "n")
	err := Term{S: c.fresh("err", "Int"), T: sig.Results().At(1).Type()}
	u.havocSliceElems(st, p)
	offI := u.toIdx(off)
	zero := c.idxConst(0)
	st.assume(and(c.idxLe(zero, n.S), c.idxLe(n.S, sLen(p.S))))
	st.assume(implies(eq(err.S, "0"), eq(n.S, sLen(p.S))))
	st.assume(implies(c.idxLt(zero, n.S), and(c.idxLe(zero, offI), c.idxLe(c.idxAdd(offI, n.S), "(rd.size "+r.S+")"))))
	st.assume(u.externalErr(err.S))
	// whether the whole range is delivered is a property of the reader and the range (spec builtin readfull): lets a
	// contract say "if the bytes are delivered, the function succeeds" -- a legal ReaderAt may return len(p), io.EOF
	c.declareFun("rd.full", "(Int "+c.idxSort()+" "+c.idxSort()+") Bool")
	st.assume(eq(eq(n.S, sLen(p.S)), fmt.Sprintf("(rd.full %s %s %s)", r.S, offI, sLen(p.S))))
	// faithful files (os.File, bytes.Reader, mmap, section readers over them): exactly min(len(p), size-off) bytes, EOF only when short
	c.declareFun("rd.faithful", "(Int) Bool")
	avail := c.idxSub("(rd.size "+r.S+")", offI)
	exact := ite(c.idxLt(avail, zero), zero, ite(c.idxLt(avail, sLen(p.S)), avail, sLen(p.S)))
	eof := u.sentinel("gv_io_EOF")
	st.assume(implies(and("(rd.faithful "+r.S+")", c.idxLe(zero, offI), c.idxLe(zero, "(rd.size "+r.S+")")),
		and(eq(n.S, exact), eq(eq(err.S, "0"), eq(n.S, sLen(p.S))), implies(not(eq(err.S, "0")), eq(err.S, eof)))))
	blk := u.sliceBlock(st, p)
	u.c.n++
	k := fmt.Sprintf("k_q%d", u.c.n)
	st.assume(fmt.Sprintf("(forall ((%s %s)) %s)", k, c.idxSort(), implies(and(c.idxLe(zero, k), c.idxLt(k, n.S)),
		eq(fmt.Sprintf("(select %s %s)", blk, c.idxAdd(sOff(p.S), k)), fmt.Sprintf("(select (rd.content %s) %s)", r.S, c.idxAdd(offI, k))))))
	// the same fact in absolute form (index = position in the block) so that reads of p's elements trigger the instantiation
	rel := c.idxSub(k, sOff(p.S))
	st.assume(fmt.Sprintf("(forall ((%s %s)) (! %s :pattern ((select %s %s))))", k, c.idxSort(), implies(and(c.idxLe(zero, rel), c.idxLt(rel, n.S)),
		eq(fmt.Sprintf("(select %s %s)", blk, k), fmt.Sprintf("(select (rd.content %s) %s)", r.S, c.idxAdd(offI, rel)))), blk, k))
	if !c.bv {
		u.c.n++
		k2 := fmt.Sprintf("k_q%d", u.c.n)
		st.assume(fmt.Sprintf("(forall ((%s Int)) (and (<= 0 (select (rd.content %s) %s)) (<= (select (rd.content %s) %s) 255)))", k2, r.S, k2, r.S, k2))
	}
	return Term{Tuple: []Term{n, err}}
}

// externalCall: an unmodelled function outside the repository. It may write the elements of slices and the
// cells of pointers passed to it; everything else is untouched. Function-typed or repo-interface arguments
// make it a full havoc.
func (u *Unit) externalCall(st *State, e *ast.CallExpr, callee *types.Func, ca callArgs) Term {
	c := u.c
	sig := callee.Type().(*types.Signature)
	if ca.isig != nil {
		sig = ca.isig
	}
	all := false
	var args []Term
	if ca.recv != nil {
		args = append(args, *ca.recv)
	}
	if len(ca.raw) == len(ca.argExps) && len(ca.raw) > 0 {
		// use the values before conversion to the parameter types: a pointer or slice passed as `any` is still written through
		args = append(args, ca.raw...)
	} else {
		args = append(args, ca.args...)
	}
	pure := u.eng.isPureExternal(callee) || readOnlyExternal[callee.Name()] || readOnlyExternalFull[callee.FullName()]
	for _, a := range args {
		if a.T == nil {
			continue
		}
		switch ut := a.T.Underlying().(type) {
		case *types.Slice:
			if !pure {
				u.havocSliceElems(st, a)
			}
		case *types.Pointer:
			if pure {
				continue
			}
			if n, ok := ut.Elem().(*types.Named); ok && n.Obj().Pkg() != nil && !u.eng.isRepoPkg(n.Obj().Pkg().Path()) {
				continue // external object: its state is not modelled
			}
			h := u.cellHeapName(ut.Elem())
			if _, isArr := ut.Elem().Underlying().(*types.Array); isArr {
				cur := u.heapRead(st, h)
				nb := u.c.fresh("blk", fmt.Sprintf("(Array %s %s)", u.c.idxSort(), u.c.sortOf(ut.Elem().Underlying().(*types.Array).Elem())))
				u.heapWrite(st, h, fmt.Sprintf("(store %s %s %s)", cur, a.S, nb))
			} else {
				cur := u.heapRead(st, h)
				nv := u.freshOf(st, ut.Elem(), "cell")
				u.heapWrite(st, h, fmt.Sprintf("(store %s %s %s)", cur, a.S, nv.S))
			}
		case *types.Signature:
			if !pure && !strings.HasPrefix(a.S, "fn_") {
				all = true
			}
		case *types.Interface:
			// an interface value may carry repo code (callbacks)
			if !pure && !isErrorType(a.T) && !isEmptyInterface(a.T) {
				if !u.eng.externalIface(a.T) {
					all = true
				}
			}
		case *types.Map:
			if !pure {
				hp, hv := u.mapHeaps(ut)
				u.havocHeap(st, hp)
				u.havocHeap(st, hv)
			}
		}
	}
	if all {
		u.unsupportedf(e.Pos(), "external call %s receives repository code (callback/interface): heaps havoced", callee.FullName())
		u.havocAllHeaps(st)
	}
	if !pure {
		// an unmodelled external function may read from / write to any reader or writer it can reach: the ghost byte
		// counters of reference-typed arguments move forward arbitrarily; a pointer to a repository struct may reach others
		reach := false
		for _, a := range args {
			if a.T == nil {
				continue
			}
			switch a.T.Underlying().(type) {
			case *types.Pointer, *types.Interface, *types.Chan, *types.Signature, *types.Map:
				if u.c.sortOf(a.T) != "Int" {
					continue
				}
			default:
				continue
			}
			if pt, ok := a.T.Underlying().(*types.Pointer); ok {
				if nm, ok := pt.Elem().(*types.Named); ok && nm.Obj().Pkg() != nil && u.eng.isRepoPkg(nm.Obj().Pkg().Path()) {
					if _, isStruct := nm.Underlying().(*types.Struct); isStruct {
						reach = true
					}
				} else if !hasStreamMethod(a.T) {
					// a pointer to an external plain-data type (no reading/writing method): no byte counter is attached to it
					continue
				}
			}
			for _, g := range []string{"consumed", "written"} {
				h := u.ghostHeap(g)
				cur := u.heapRead(st, h)
				nv := c.fresh("cnt", "Int")
				st.assume("(>= " + nv + " (select " + cur + " " + a.S + "))")
				u.heapWrite(st, h, fmt.Sprintf("(store %s %s %s)", cur, a.S, nv))
			}
		}
		if reach {
			u.havocHeap(st, u.ghostHeap("consumed"))
			u.havocHeap(st, u.ghostHeap("written"))
		}
	}
	u.externalCalls[callee.FullName()] = true
	allocBefore := st.alloc
	u.bumpAlloc(st)
	rs := u.freshResults(st, sig, "x_"+callee.Name())
	// assumed result ranges of dependency functions (read off their source; listed in the trusted base)
	switch callee.FullName() {
	case "(*sync.WaitGroup).Wait":
		u.resync(st)
	case "(*github.com/gagliardetto/binary.Decoder).ReadCompactU16":
		// compact-u16.go: returns 0 with an error unless 0 <= ln <= math.MaxUint16
		if len(rs) >= 1 && !c.bv {
			st.assume(and("(<= 0 "+rs[0].S+")", "(<= "+rs[0].S+" 65535)"))
		} else if len(rs) >= 1 {
			st.assume(fmt.Sprintf("(bvule %s %s)", rs[0].S, c.idxConst(65535)))
		}
		u.c.note("assumed dependency contract: ReadCompactU16 returns a value in 0..65535")
	}
	if n := callee.Name(); (strings.HasPrefix(n, "New") || strings.HasPrefix(n, "Open") || strings.HasPrefix(n, "Create")) && len(rs) >= 1 {
		// library convention (trusted): constructors return freshly allocated objects
		if _, isPtr := sig.Results().At(0).Type().Underlying().(*types.Pointer); isPtr {
			st.assume(or(eq(rs[0].S, "0"), "(>= "+rs[0].S+" "+allocBefore+")"))
		}
	}
	if strings.HasPrefix(callee.Name(), "New") && len(rs) == 1 {
		switch sig.Results().At(0).Type().Underlying().(type) {
		case *types.Pointer, *types.Interface:
			if u.c.sortOf(sig.Results().At(0).Type()) == "Int" {
				st.assume(not(eq(rs[0].S, "0"))) // library convention (trusted): constructors return non-nil
			}
		}
	}
	// library convention (trusted): (T, error) results with err == nil carry a non-nil pointer/interface T
	if n := len(rs); n >= 2 && isErrorType(sig.Results().At(n-1).Type()) {
		for i := 0; i < n-1; i++ {
			switch sig.Results().At(i).Type().Underlying().(type) {
			case *types.Pointer, *types.Interface:
				if u.c.sortOf(sig.Results().At(i).Type()) == "Int" {
					st.assume(implies(eq(rs[n-1].S, "0"), not(eq(rs[i].S, "0"))))
				}
			}
		}
	}
	return resultTerm(rs)
}

// hasStreamMethod: the method set of t contains a method that consumes from or writes to a byte stream.
func hasStreamMethod(t types.Type) bool {
	ms := types.NewMethodSet(t)
	for i := 0; i < ms.Len(); i++ {
		switch ms.At(i).Obj().Name() {
		case "Read", "Write", "ReadByte", "WriteByte", "ReadAt", "WriteAt", "ReadFrom", "WriteTo", "WriteString", "ReadString",
			"ReadBytes", "ReadRune", "Peek", "Discard", "Flush", "Seek", "Decode", "Encode", "Next", "Scan", "Close", "Sync", "Truncate":
			return true
		}
	}
	return false
}

// readOnlyExternal: external methods that by their documented contract do not modify their slice arguments
// (io.Writer: "Write must not modify the slice data, even temporarily").
var readOnlyExternal = map[string]bool{"Write": true, "WriteAt": true, "WriteString": true, "WriteByte": true, "Sum64": true,
	"Equal": true, "Compare": true, "Contains": true, "HasPrefix": true, "EncodeToString": true, "Encode": false}

// readOnlyExternalFull: external constructors that keep a reference to their slice argument but do not modify it.
var readOnlyExternalFull = map[string]bool{
	"github.com/gagliardetto/binary.NewBorshDecoder": true, "github.com/gagliardetto/binary.NewBinDecoder": true,
	"bytes.NewReader": true, "bytes.NewBuffer": true, "bufio.NewReader": true, "bufio.NewReaderSize": true,
	"github.com/ipfs/go-cid.CidFromBytes": true, "github.com/ipfs/go-cid.Cast": true,
	"github.com/fxamacker/cbor/v2.NewDecoder": true,
}

// externalIface: interface types whose implementations we treat as external objects (no callbacks into heaps we model).
func (eng *Engine) externalIface(t types.Type) bool {
	// a repository-declared interface made only of io methods (e.g. interface{io.ReaderAt; io.Closer}) is as external as they are
	if it, ok := t.Underlying().(*types.Interface); ok && it.NumMethods() > 0 {
		allIO := true
		for i := 0; i < it.NumMethods(); i++ {
			switch it.Method(i).Name() {
			case "Read", "ReadAt", "Write", "WriteAt", "Close", "Seek", "ReadByte", "Size", "Len", "Stat", "Sync":
			default:
				allIO = false
			}
		}
		if allIO {
			return true
		}
	}
	s := types.TypeString(t, nil)
	switch s {
	case "github.com/rpcpool/yellowstone-faithful/indexmeta.Decoder":
		return true
	case "io.Reader", "io.Writer", "io.ReaderAt", "io.WriterAt", "io.Closer", "io.ReadCloser", "io.ByteReader", "context.Context",
		"io.ReadSeeker", "io.WriteCloser", "io.ReadWriter", "hash.Hash", "hash.Hash64":
		return true
	}
	return false
}

// ---------- lock ghost ----------

func (u *Unit) lockKey(recvExpr ast.Expr) string {
	switch x := ast.Unparen(recvExpr).(type) {
	case *ast.SelectorExpr:
		t := u.typeOf(x.X)
		name := "?"
		if t != nil {
			if p, ok := t.Underlying().(*types.Pointer); ok {
				t = p.Elem()
			}
			if n, ok := t.(*types.Named); ok {
				name = n.Obj().Name()
			}
		}
		return name + "." + x.Sel.Name
	case *ast.Ident:
		return x.Name
	case *ast.UnaryExpr:
		return u.lockKey(x.X)
	}
	return u.exprText(recvExpr)
}

func (u *Unit) heldTerm(st *State, key string) string {
	g := "held:" + key
	if v, ok := st.ghost[g]; ok {
		return v
	}
	name := "held0_" + sanitize(key)
	u.c.declareFun(name, "() Int")
	u.c.declareRaw("heldrange_"+name, fmt.Sprintf("(assert (and (<= 0 %s) (<= %s 2)))", name, name))
	if u.ct == nil && u.decl != nil {
		// a function without a contract is entered with no lock of its package held: every static call of an uncontracted
		// same-package function, and every call through a function value, made while a lock is held is itself a lock
		// obligation of the caller (lock-call), and callbacks run by the runtime / net/http start with nothing held
		u.c.declareRaw("heldentry_"+name, fmt.Sprintf("(assert (= %s 0))", name))
	}
	return name
}

func (u *Unit) lockOp(st *State, e *ast.CallExpr, op string, ca callArgs) {
	u.resync(st)
	key := u.lockKey(ca.recvExp)
	cur := u.heldTerm(st, key)
	g := "held:" + key
	switch op {
	case "Lock":
		u.emit(st, "lock", u.safetyName("lock", key+".Lock"), "lock "+key+" is not already held by this goroutine (self-deadlock)", e.Pos(), eq(cur, "0"))
		st.ghost[g] = "2"
	case "RLock":
		u.emit(st, "lock", u.safetyName("lock", key+".RLock"), "read lock "+key+" is not re-acquired while held (deadlocks when a writer is queued)", e.Pos(), eq(cur, "0"))
		st.ghost[g] = "1"
	case "Unlock":
		u.emit(st, "lock", u.safetyName("lock", key+".Unlock"), "Unlock of "+key+" with the write lock held", e.Pos(), eq(cur, "2"))
		st.ghost[g] = "0"
	case "RUnlock":
		u.emit(st, "lock", u.safetyName("lock", key+".RUnlock"), "RUnlock of "+key+" with the read lock held", e.Pos(), eq(cur, "1"))
		st.ghost[g] = "0"
	}
}
