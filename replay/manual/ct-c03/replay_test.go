package main

// C03 (K2)/(K3) replay: a request for an ABSENT key is answered with the object of ANOTHER key.
//
// The compactindexsized format stores no keys, only a 24-bit per-bucket hash. (*DB).Lookup therefore returns the value of a
// stored entry for every absent key whose bucket and 24-bit hash equal those of a stored key. Nothing downstream
// ((*Epoch).FindCidFromSlot / FindCidFromSignature, (*Epoch).GetBlock / GetTransaction, the gRPC and JSON-RPC handlers)
// compares the decoded object (block.Slot, first signature of the transaction) with the request.
//
// The test builds a REAL tiny epoch with the repository's own writers (CAR sections with Block / Transaction nodes,
// slot-to-cid, sig-to-cid and cid-to-offset-and-size indexes), searches with the index's own hash functions
// ((*Header).BucketHash, (*BucketHeader).Hash) for an absent slot / signature that collides with a stored one, and calls the
// real lookup path. The assertions state property C03; they FAIL on the current code and pass with fix.patch.
//
// Run (no file of /repo is modified; the test is overlaid into package main):
//   cd /repo && go test -vet=off -count=1 -overlay /verif/replay/manual/ct-c03/overlay.json -run 'TestReplayC03' -v .

import (
	"bytes"
	"context"
	"encoding/base64"
	"encoding/binary"
	"encoding/json"
	"strings"
	"errors"
	"fmt"
	"os"
	"path/filepath"
	"testing"

	"github.com/allegro/bigcache/v3"
	"github.com/gagliardetto/solana-go"
	"github.com/ipfs/go-cid"
	cidlink "github.com/ipld/go-ipld-prime/linking/cid"
	"github.com/multiformats/go-multihash"
	"github.com/rpcpool/yellowstone-faithful/blocktimeindex"
	"github.com/rpcpool/yellowstone-faithful/compactindexsized"
	hugecache "github.com/rpcpool/yellowstone-faithful/huge-cache"
	"github.com/rpcpool/yellowstone-faithful/indexes"
	"github.com/rpcpool/yellowstone-faithful/ipld/ipldbindcode"
	old_faithful_grpc "github.com/rpcpool/yellowstone-faithful/old-faithful-proto/old-faithful-grpc"
	"github.com/sourcegraph/jsonrpc2"
	"github.com/valyala/fasthttp"
)

// c03JSONRPC drives the real JSON-RPC handler (observation point "JSON-RPC handler response") and returns the response body.
func c03JSONRPC(fx *c03Fixture, method string, params string) (string, *jsonrpc2.Error, error) {
	rc := &requestContext{ctx: &fasthttp.RequestCtx{}}
	raw := json.RawMessage(params)
	req := &jsonrpc2.Request{Method: method, Params: &raw, ID: jsonrpc2.ID{Num: 1}}
	ctx := setRequestIDToContext(context.Background(), "c03")
	var rerr *jsonrpc2.Error
	var err error
	switch method {
	case "getBlock":
		rerr, err = fx.multi.handleGetBlock(ctx, rc, req)
	case "getTransaction":
		rerr, err = fx.multi.handleGetTransaction(ctx, rc, req)
	}
	return string(rc.ctx.Response.Body()), rerr, err
}

const (
	c03Epoch     = uint64(0)
	c03NumBlocks = 3000 // stored slots: 1000, 1003, 1006, ... (two of every three slots are "skipped")
	c03NumTxs    = 3000
)

type c03Fixture struct {
	epoch       *Epoch
	multi       *MultiEpoch
	slots       map[uint64]bool
	sigs        map[solana.Signature]bool
	slotIdxPath string
	sigIdxPath  string
	c2oIdxPath  string
	cids        map[cid.Cid]bool
}

func c03CidOf(t *testing.T, data []byte) cid.Cid {
	t.Helper()
	c, err := cid.Prefix{Version: 1, Codec: cid.DagCBOR, MhType: multihash.SHA2_256, MhLength: -1}.Sum(data)
	if err != nil {
		t.Fatal(err)
	}
	return c
}

func c03Sig(i int) solana.Signature {
	var s solana.Signature
	for k := 0; k < 8; k++ {
		binary.LittleEndian.PutUint64(s[k*8:], uint64(i)*0x9E3779B97F4A7C15+uint64(k)*0xD1B54A32D192ED03+1)
	}
	return s
}

// a real (unsigned-but-well-formed) legacy transaction carrying `sig` as its first signature
func c03TxBytes(t *testing.T, sig solana.Signature, i int) []byte {
	t.Helper()
	var payer solana.PublicKey
	binary.LittleEndian.PutUint64(payer[:], uint64(i)+1)
	tx := &solana.Transaction{
		Signatures: []solana.Signature{sig},
		Message: solana.Message{
			Header:          solana.MessageHeader{NumRequiredSignatures: 1},
			AccountKeys:     solana.PublicKeySlice{payer},
			RecentBlockhash: solana.Hash{1, 2, 3},
		},
	}
	b, err := tx.MarshalBinary()
	if err != nil {
		t.Fatal(err)
	}
	return b
}

func c03Build(t *testing.T) *c03Fixture {
	t.Helper()
	dir := t.TempDir()
	ctx := context.Background()
	fx := &c03Fixture{slots: map[uint64]bool{}, sigs: map[solana.Signature]bool{}}

	// ---- CAR file (v1 layout: header section, then uvarint(len(cid)+len(data)) | cid | data sections) ----
	type sec struct {
		c            cid.Cid
		offset, size uint64
	}
	var car bytes.Buffer
	writeSection := func(c cid.Cid, data []byte) sec {
		off := uint64(car.Len())
		var lb [binary.MaxVarintLen64]byte
		n := binary.PutUvarint(lb[:], uint64(len(c.Bytes())+len(data)))
		car.Write(lb[:n])
		car.Write(c.Bytes())
		car.Write(data)
		return sec{c: c, offset: off, size: uint64(car.Len()) - off}
	}
	{
		hdr := []byte("\xa2eroots\x81\xd8\x2a\x45\x00\x01\x55\x00\x00gversion\x01") // {roots:[bafkqaaa], version:1}
		var lb [binary.MaxVarintLen64]byte
		n := binary.PutUvarint(lb[:], uint64(len(hdr)))
		car.Write(lb[:n])
		car.Write(hdr)
	}
	headerSize := uint64(car.Len())

	blockSecs := make(map[uint64]sec)
	var allSecs []sec
	for i := 0; i < c03NumBlocks; i++ {
		slot := 1000 + 3*uint64(i)
		blk := &ipldbindcode.Block{
			Kind:    2,
			Slot:    int(slot),
			Meta:    ipldbindcode.SlotMeta{Parent_slot: 0, Blocktime: 1600000000 + i},
			Rewards: cidlink.Link{Cid: DummyCID},
		}
		data, err := blk.MarshalCBOR()
		if err != nil {
			t.Fatal(err)
		}
		s := writeSection(c03CidOf(t, data), data)
		blockSecs[slot] = s
		allSecs = append(allSecs, s)
		fx.slots[slot] = true
	}
	txSecs := make(map[solana.Signature]sec)
	for i := 0; i < c03NumTxs; i++ {
		sig := c03Sig(i)
		slot := 1000 + 3*uint64(i)
		txn := &ipldbindcode.Transaction{
			Kind:     0,
			Data:     ipldbindcode.DataFrame{Kind: 6, Data: c03TxBytes(t, sig, i)},
			Metadata: ipldbindcode.DataFrame{Kind: 6, Data: []byte{}},
			Slot:     int(slot),
		}
		data, err := txn.MarshalCBOR()
		if err != nil {
			t.Fatal(err)
		}
		s := writeSection(c03CidOf(t, data), data)
		txSecs[sig] = s
		allSecs = append(allSecs, s)
		fx.sigs[sig] = true
	}
	carPath := filepath.Join(dir, "epoch-0.car")
	if err := os.WriteFile(carPath, car.Bytes(), 0o644); err != nil {
		t.Fatal(err)
	}

	// ---- indexes, with the repository's writers ----
	root := DummyCID
	{
		w, err := indexes.NewWriter_SlotToCid(c03Epoch, root, indexes.NetworkMainnet, "", uint64(len(blockSecs)))
		if err != nil {
			t.Fatal(err)
		}
		for slot, s := range blockSecs {
			if err := w.Put(slot, s.c); err != nil {
				t.Fatal(err)
			}
		}
		if err := w.Seal(ctx, dir); err != nil {
			t.Fatal(err)
		}
		fx.slotIdxPath = w.GetFilepath()
		w.Close()
	}
	{
		w, err := indexes.NewWriter_SigToCid(c03Epoch, root, indexes.NetworkMainnet, "", uint64(len(txSecs)))
		if err != nil {
			t.Fatal(err)
		}
		for sig, s := range txSecs {
			if err := w.Put(sig, s.c); err != nil {
				t.Fatal(err)
			}
		}
		if err := w.Seal(ctx, dir); err != nil {
			t.Fatal(err)
		}
		fx.sigIdxPath = w.GetFilepath()
		w.Close()
	}
	var c2oPath string
	{
		w, err := indexes.NewWriter_CidToOffsetAndSize(c03Epoch, root, indexes.NetworkMainnet, "", uint64(len(allSecs)))
		if err != nil {
			t.Fatal(err)
		}
		for _, s := range allSecs {
			if err := w.Put(s.c, s.offset, s.size); err != nil {
				t.Fatal(err)
			}
		}
		if err := w.Seal(ctx, dir); err != nil {
			t.Fatal(err)
		}
		c2oPath = w.GetFilepath()
		w.Close()
	}
	fx.c2oIdxPath = c2oPath
	fx.cids = map[cid.Cid]bool{}
	for _, s := range allSecs {
		fx.cids[s.c] = true
	}

	// ---- the Epoch, wired as NewEpochFromConfig wires a "remote CAR + new-format indexes" epoch ----
	slotToCid, err := indexes.Open_SlotToCid(fx.slotIdxPath)
	if err != nil {
		t.Fatal(err)
	}
	sigToCid, err := indexes.Open_SigToCid(fx.sigIdxPath)
	if err != nil {
		t.Fatal(err)
	}
	cidToOas, err := indexes.Open_CidToOffsetAndSize(c2oPath)
	if err != nil {
		t.Fatal(err)
	}
	carFile, err := os.Open(carPath)
	if err != nil {
		t.Fatal(err)
	}
	cache, err := hugecache.NewWithConfig(ctx, bigcache.DefaultConfig(60e9))
	if err != nil {
		t.Fatal(err)
	}
	bti := blocktimeindex.NewForEpoch(c03Epoch)
	for slot := range fx.slots {
		if err := bti.Set(slot, 1600000000); err != nil {
			t.Fatal(err)
		}
	}
	cfg := &Config{}
	cfg.Indexes.CidToOffsetAndSize.URI = URI(c2oPath)
	fx.epoch = &Epoch{
		epoch:                   c03Epoch,
		config:                  cfg,
		remoteCarReader:         carFile,
		carHeaderSize:           headerSize,
		rootCid:                 root,
		cidToOffsetAndSizeIndex: cidToOas,
		slotToCidIndex:          slotToCid,
		sigToCidIndex:           sigToCid,
		blocktimeindex:          bti,
		allCache:                cache,
	}
	t.Cleanup(func() { slotToCid.Close(); sigToCid.Close(); cidToOas.Close(); carFile.Close() })
	fx.multi = NewMultiEpoch(&Options{EpochSearchConcurrency: 1})
	if err := fx.multi.AddEpoch(c03Epoch, fx.epoch); err != nil {
		t.Fatal(err)
	}
	return fx
}

// c03Hasher computes, with the index's own functions, (bucket number, 24-bit in-bucket hash) of a key.
type c03Hasher struct {
	db      *compactindexsized.DB
	buckets map[uint]*compactindexsized.Bucket
}

func c03OpenHasher(t *testing.T, path string) *c03Hasher {
	t.Helper()
	f, err := os.Open(path)
	if err != nil {
		t.Fatal(err)
	}
	t.Cleanup(func() { f.Close() })
	db, err := compactindexsized.Open(f)
	if err != nil {
		t.Fatal(err)
	}
	return &c03Hasher{db: db, buckets: map[uint]*compactindexsized.Bucket{}}
}

func (h *c03Hasher) hash(t *testing.T, key []byte) (uint, uint64) {
	bi := h.db.Header.BucketHash(key)
	b, ok := h.buckets[bi]
	if !ok {
		var err error
		b, err = h.db.GetBucket(bi)
		if err != nil {
			t.Fatal(err)
		}
		h.buckets[bi] = b
	}
	return bi, b.Hash(key)
}

type c03BH struct {
	bucket uint
	hash   uint64
}

// (K2) getBlock for a skipped slot
func TestReplayC03GetBlockAbsentSlot(t *testing.T) {
	fx := c03Build(t)
	h := c03OpenHasher(t, fx.slotIdxPath)
	stored := map[c03BH]uint64{}
	for slot := range fx.slots {
		bi, hv := h.hash(t, indexes.Uint64tob(slot))
		stored[c03BH{bi, hv}] = slot
	}
	// search: skipped slots of epoch 0 (slot < 432000), so that the handlers route the request to the loaded epoch
	var absent, victim uint64
	found := false
	trials := 0
	for s := uint64(0); s < 432000 && !found; s++ {
		if fx.slots[s] {
			continue
		}
		trials++
		bi, hv := h.hash(t, indexes.Uint64tob(s))
		if v, ok := stored[c03BH{bi, hv}]; ok {
			absent, victim, found = s, v, true
		}
	}
	if !found {
		t.Skipf("no colliding absent slot among %d candidates (increase c03NumBlocks)", trials)
	}
	fmt.Printf("C03/K2: absent slot %d has the bucket and 24-bit hash of stored slot %d (found after %d absent candidates; %d slots stored)\n", absent, victim, trials, len(fx.slots))

	ctx := context.Background()
	// index level
	gotCid, err := fx.epoch.slotToCidIndex.Get(absent)
	wantCid, _ := fx.epoch.slotToCidIndex.Get(victim)
	fmt.Printf("C03/K2: SlotToCid_Reader.Get(%d) = %s, err=%v   (Get(%d) = %s)\n", absent, gotCid, err, victim, wantCid)

	// Epoch level
	blk, _, err := fx.epoch.GetBlock(ctx, absent)
	if err == nil {
		fmt.Printf("C03/K2: (*Epoch).GetBlock(slot=%d) -> err=nil, block.Slot=%d\n", absent, blk.Slot)
		if uint64(blk.Slot) != absent {
			t.Errorf("REPLAY-CONFIRMED C03/K2: (*Epoch).GetBlock(%d) returned the block of slot %d with a nil error", absent, blk.Slot)
		}
	} else {
		fmt.Printf("C03/K2: (*Epoch).GetBlock(slot=%d) -> err=%v (is ErrNotFound: %v)\n", absent, err, errors.Is(err, compactindexsized.ErrNotFound))
		if !errors.Is(err, compactindexsized.ErrNotFound) {
			t.Errorf("skipped slot %d is not reported as not-found: %v", absent, err)
		}
	}
	// the stored slot is still served
	if blk, _, err := fx.epoch.GetBlock(ctx, victim); err != nil || uint64(blk.Slot) != victim {
		t.Errorf("stored slot %d not served: %v", victim, err)
	}

	// gRPC handler level (observation point "gRPC GetBlock")
	resp, err := fx.multi.GetBlock(ctx, &old_faithful_grpc.BlockRequest{Slot: absent})
	if err == nil {
		fmt.Printf("C03/K2: gRPC GetBlock(slot=%d) -> err=nil, response.Slot=%d blockTime=%d\n", absent, resp.Slot, resp.BlockTime)
		if resp.Slot != absent {
			t.Errorf("REPLAY-CONFIRMED C03/K2: gRPC GetBlock(%d) answered with the block of slot %d", absent, resp.Slot)
		}
	} else {
		fmt.Printf("C03/K2: gRPC GetBlock(slot=%d) -> err=%v\n", absent, err)
	}

	// JSON-RPC handler level: the response carries the block time of the OTHER slot's block (1600000000 + i, i = (slot-1000)/3)
	body, rerr, herr := c03JSONRPC(fx, "getBlock", fmt.Sprintf(`[%d, {"encoding":"base64","transactionDetails":"none","rewards":false}]`, absent))
	fmt.Printf("C03/K2: JSON-RPC getBlock(%d) -> rpcError=%v err=%v body=%s\n", absent, rerr, herr, body)
	if rerr == nil && herr == nil {
		victimTime := 1600000000 + (victim-1000)/3
		if strings.Contains(body, fmt.Sprintf(`"blockTime":%d`, victimTime)) {
			t.Errorf("REPLAY-CONFIRMED C03/K2: JSON-RPC getBlock(%d) answered with the block of slot %d (blockTime %d)", absent, victim, victimTime)
		}
	}
}

// (K3) getTransaction for a signature that is not archived
func TestReplayC03GetTransactionAbsentSignature(t *testing.T) {
	fx := c03Build(t)
	h := c03OpenHasher(t, fx.sigIdxPath)
	stored := map[c03BH]solana.Signature{}
	for sig := range fx.sigs {
		bi, hv := h.hash(t, sig[:])
		stored[c03BH{bi, hv}] = sig
	}
	var absent, victim solana.Signature
	found := false
	trials := 0
	for i := 1 << 30; i < (1<<30)+20_000_000 && !found; i++ {
		s := c03Sig(i)
		if fx.sigs[s] {
			continue
		}
		trials++
		bi, hv := h.hash(t, s[:])
		if v, ok := stored[c03BH{bi, hv}]; ok {
			absent, victim, found = s, v, true
		}
	}
	if !found {
		t.Skipf("no colliding absent signature among %d candidates", trials)
	}
	fmt.Printf("C03/K3: absent signature %s has the bucket and 24-bit hash of stored signature %s (found after %d candidates; %d signatures stored)\n", absent, victim, trials, len(fx.sigs))

	ctx := context.Background()
	gotCid, err := fx.epoch.sigToCidIndex.Get(absent)
	wantCid, _ := fx.epoch.sigToCidIndex.Get(victim)
	fmt.Printf("C03/K3: SigToCid_Reader.Get(absent) = %s, err=%v   (Get(victim) = %s)\n", gotCid, err, wantCid)

	txn, _, err := fx.epoch.GetTransaction(ctx, absent)
	if err == nil {
		first, serr := txn.Signature()
		fmt.Printf("C03/K3: (*Epoch).GetTransaction(absent) -> err=nil, first signature of the returned transaction = %s (%v)\n", first, serr)
		if serr != nil || first != absent {
			t.Errorf("REPLAY-CONFIRMED C03/K3: (*Epoch).GetTransaction(%s) returned a transaction whose first signature is %s", absent, first)
		}
	} else {
		fmt.Printf("C03/K3: (*Epoch).GetTransaction(absent) -> err=%v (is ErrNotFound: %v)\n", err, errors.Is(err, compactindexsized.ErrNotFound))
		if !errors.Is(err, compactindexsized.ErrNotFound) {
			t.Errorf("absent signature is not reported as not-found: %v", err)
		}
	}
	if txn, _, err := fx.epoch.GetTransaction(ctx, victim); err != nil {
		t.Errorf("stored signature not served: %v", err)
	} else if first, _ := txn.Signature(); first != victim {
		t.Errorf("stored signature served with another transaction")
	}

	// gRPC handler level, ONE epoch loaded: findEpochNumberFromSignature returns that epoch without consulting sig-exists
	resp, err := fx.multi.GetTransaction(ctx, &old_faithful_grpc.TransactionRequest{Signature: absent[:]})
	if err == nil {
		var got solana.Signature
		raw := resp.Transaction.Transaction
		if len(raw) >= 65 {
			copy(got[:], raw[1:65])
		}
		fmt.Printf("C03/K3: gRPC GetTransaction(absent) -> err=nil, slot=%d, first signature in the answered transaction bytes = %s\n", resp.Slot, got)
		if got != absent {
			t.Errorf("REPLAY-CONFIRMED C03/K3: gRPC GetTransaction(%s) answered with transaction %s", absent, got)
		}
	} else {
		fmt.Printf("C03/K3: gRPC GetTransaction(absent) -> err=%v\n", err)
	}

	// JSON-RPC handler level
	body, rerr, herr := c03JSONRPC(fx, "getTransaction", fmt.Sprintf(`["%s", {"encoding":"base64"}]`, absent))
	fmt.Printf("C03/K3: JSON-RPC getTransaction(absent) -> rpcError=%v err=%v body=%s\n", rerr, herr, body)
	if rerr == nil && herr == nil {
		var parsed struct {
			Result struct {
				Transaction []string `json:"transaction"`
			} `json:"result"`
		}
		var got solana.Signature
		if json.Unmarshal([]byte(body), &parsed) == nil && len(parsed.Result.Transaction) == 2 {
			if raw, derr := base64.StdEncoding.DecodeString(parsed.Result.Transaction[0]); derr == nil && len(raw) >= 65 {
				copy(got[:], raw[1:65])
			}
		}
		fmt.Printf("C03/K3: first signature of the transaction in the JSON-RPC answer = %s\n", got)
		if got != absent {
			t.Errorf("REPLAY-CONFIRMED C03/K3: JSON-RPC getTransaction(%s) answered with transaction %s", absent, got)
		}
	}
}

// (K1) control experiment: fetching by a CID that is NOT in the CAR but collides, in the cid-to-offset-and-size index, with a
// stored CID. Here the code does compare (parseNodeFromSection: gotCid.Equals(*wantedCid)), so the request must fail - it
// does, on the current code and with the fix (this test passes on both).
func TestReplayC03GetNodeByAbsentCid(t *testing.T) {
	fx := c03Build(t)
	h := c03OpenHasher(t, fx.c2oIdxPath)
	stored := map[c03BH]cid.Cid{}
	for c := range fx.cids {
		bi, hv := h.hash(t, c.Bytes())
		stored[c03BH{bi, hv}] = c
	}
	var absent, victim cid.Cid
	found := false
	trials := 0
	for i := 0; i < 20_000_000 && !found; i++ {
		c := c03CidOf(t, []byte(fmt.Sprintf("absent-object-%d", i)))
		if fx.cids[c] {
			continue
		}
		trials++
		bi, hv := h.hash(t, c.Bytes())
		if v, ok := stored[c03BH{bi, hv}]; ok {
			absent, victim, found = c, v, true
		}
	}
	if !found {
		t.Skipf("no colliding absent CID among %d candidates", trials)
	}
	fmt.Printf("C03/K1: absent CID %s has the bucket and 24-bit hash of stored CID %s (found after %d candidates; %d CIDs stored)\n", absent, victim, trials, len(fx.cids))
	oas, err := fx.epoch.cidToOffsetAndSizeIndex.Get(absent)
	fmt.Printf("C03/K1: CidToOffsetAndSize_Reader.Get(absent) = %+v, err=%v\n", oas, err)
	data, err := fx.epoch.GetNodeByCid(context.Background(), absent)
	fmt.Printf("C03/K1: (*Epoch).GetNodeByCid(absent) -> %d bytes, err=%v\n", len(data), err)
	if err == nil {
		t.Errorf("REPLAY-CONFIRMED C03/K1: GetNodeByCid(%s) returned %d bytes stored under CID %s", absent, len(data), victim)
	}
	if data, err := fx.epoch.GetNodeByCid(context.Background(), victim); err != nil || len(data) == 0 {
		t.Errorf("stored CID not served: %v", err)
	}
}
