#!/bin/bash
# usage: confirm_mutant.sh <PROP> <name> <mutant-dir> <demo-dest-relative-path> <go-test-pkg> <run-regex> [extra test pkgs...]
# Confirms a seeded change in a fresh scratch worktree: builds, existing tests pass, demo fails with it and passes without.
set -u
export GOFLAGS=-mod=mod GOPROXY=off GOSUMDB=off GOTOOLCHAIN=local
PROP=$1; NAME=$2; MDIR=$3; DEST=$4; PKG=$5; RUN=$6; shift 6
WT=/tmp/cm-$NAME
LOG=/tmp/cm-$NAME.log
rm -rf $WT; git -C /repo worktree prune; git -C /repo worktree add -f --detach $WT HEAD >/dev/null 2>&1 || exit 3
{
cd $WT
echo "== apply"; git apply $MDIR/patch.diff || { echo APPLY-FAILED; exit 4; }
echo "== build"; go build ./... || { echo BUILD-FAILED; exit 5; }
echo "== existing tests (all packages) with the change"
go test -vet=off -count=1 ./... 2>&1 | grep -v "no test files" | tail -40
T1=${PIPESTATUS[0]}
echo "existing-tests-exit=$T1"
cp $MDIR/demo_test.go $WT/$DEST
echo "== demo WITH change (expect FAIL)"
go test -vet=off -count=1 -timeout 600s -run "$RUN" $PKG 2>&1 | tail -15
D1=${PIPESTATUS[0]}
echo "demo-with-change-exit=$D1"
rm -f $WT/$DEST; git apply -R $MDIR/patch.diff; cp $MDIR/demo_test.go $WT/$DEST
echo "== demo WITHOUT change (expect PASS)"
go test -vet=off -count=1 -timeout 600s -run "$RUN" $PKG 2>&1 | tail -8
D2=${PIPESTATUS[0]}
echo "demo-without-change-exit=$D2"
echo "SUMMARY existing=$T1 demo_with=$D1 demo_without=$D2"
if [ $T1 -eq 0 ] && [ $D1 -ne 0 ] && [ $D2 -eq 0 ]; then
  mkdir -p /verif/seeded/$NAME
  cp $MDIR/patch.diff /verif/seeded/$NAME/patch.diff
  cp $MDIR/demo_test.go /verif/seeded/$NAME/demo_test.go
  cp $MDIR/README.md /verif/seeded/$NAME/README.agent.md 2>/dev/null
  echo CONFIRMED
else
  echo NOT-CONFIRMED
fi
} > $LOG 2>&1
cd /; git -C /repo worktree remove --force $WT
tail -3 $LOG
