// Theory of the implicit (eytzinger / heap-ordered) binary tree: node k (1-based) has children 2k, 2k+1.
// In contracts `/` on int is floor division (SMT div); all uses are on non-negative values.

//@ spec func anc(j int, k int) bool = j >= 1 && j >= k && (j == k || anc(j/2, k))

//@ lemma ancRoot(j int)
//@   requires j >= 1
//@   ensures anc(j, 1)
//@   decreases j
//@   induct ancRoot(j/2)
//@   use unfold(anc(j, 1))

//@ lemma ancSplit(j int, k int)
//@   requires j > k && k >= 1
//@   ensures anc(j, k) <==> (anc(j, 2*k) || anc(j, 2*k+1))
//@   decreases j
//@   induct ancSplit(j/2, k)
//@   use unfold(anc(j, k)) && unfold(anc(j, 2*k)) && unfold(anc(j, 2*k+1)) && unfold(anc(j/2, k)) && unfold(anc(j/2, 2*k)) && unfold(anc(j/2, 2*k+1))

//@ lemma ancBelow(j int, k int)
//@   requires j < k
//@   ensures !anc(j, k)
//@   use unfold(anc(j, k))

//@ lemma ancSelf(k int)
//@   requires k >= 1
//@   ensures anc(k, k)
//@   use unfold(anc(k, k))
