package main

// C19 replay: gRPC StreamTransactions / StreamBlocks (grpc-server.go) against a REAL tiny epoch.
//
// The fixture is an epoch-0 CAR written by hand (Transaction, Entry and Block nodes, in the order of a real CAR: the
// transactions and entries of a block precede the block), the slot-to-cid / sig-to-cid / cid-to-offset-and-size indexes
// written with the repository's writers, a blocktime index, an optional gsfa index written with gsfa.NewGsfaWriter, and an
// &Epoch{...} wired the way NewEpochFromConfig wires a "remote CAR + new-format indexes" epoch.
//
//	slot 1000: [0] vote   [1] A        [2] B                (2 entries)
//	slot 1001: [0] vote   [1] A+B
//	slot 1002: skipped
//	slot 1003: [0] A+C    [1] vote     [2] C (FAILED)       (2 entries)
//	slot 1004: [0] vote
//	slot 1005, 1006: skipped
//	slot 1007: [0] A      [1] B+C      [2] vote
//	slot 2000: 130 successful transactions mentioning D
//	slot 2050: 3 successful transactions mentioning E
//	slot 2100: 120 successful transactions mentioning E
//
// Every test states the property (what the request must stream) with an oracle computed from the fixture and compares it
// with what the real handler sent to a fake grpc.ServerStreamingServer. The assertions FAIL on the current code
// ("REPLAY-CONFIRMED C19/<tag>") and pass with fix.patch (overlay_fixed.json).
//
// Run (no file of /repo is modified; the test is overlaid into package main):
//   cd /repo && go test -vet=off -count=1 -overlay /verif/replay/manual/ct-c19/overlay.json -run 'TestReplayC19' -v .
// With the fix:
//   cd /repo && go test -vet=off -count=1 -overlay /verif/replay/manual/ct-c19/overlay_fixed.json -run 'TestReplayC19' -v .

import (
	"bytes"
	"context"
	"encoding/binary"
	"errors"
	"fmt"
	"math"
	"os"
	"path/filepath"
	"strings"
	"sync"
	"testing"
	"time"

	"github.com/allegro/bigcache/v3"
	bin "github.com/gagliardetto/binary"
	"github.com/gagliardetto/solana-go"
	"github.com/ipfs/go-cid"
	"github.com/ipld/go-ipld-prime/datamodel"
	cidlink "github.com/ipld/go-ipld-prime/linking/cid"
	"github.com/multiformats/go-multihash"
	"github.com/rpcpool/yellowstone-faithful/blocktimeindex"
	"github.com/rpcpool/yellowstone-faithful/gsfa"
	hugecache "github.com/rpcpool/yellowstone-faithful/huge-cache"
	"github.com/rpcpool/yellowstone-faithful/indexes"
	"github.com/rpcpool/yellowstone-faithful/indexmeta"
	"github.com/rpcpool/yellowstone-faithful/ipld/ipldbindcode"
	old_faithful_grpc "github.com/rpcpool/yellowstone-faithful/old-faithful-proto/old-faithful-grpc"
	solanatxmetaparsers "github.com/rpcpool/yellowstone-faithful/solana-tx-meta-parsers"
	"github.com/rpcpool/yellowstone-faithful/third_party/solana_proto/confirmed_block"
	"github.com/rpcpool/yellowstone-faithful/tooling"
	"google.golang.org/grpc"
	"google.golang.org/grpc/status"
	"google.golang.org/protobuf/proto"
)

const c19Epoch = uint64(0)

func c19Key(tag byte) solana.PublicKey {
	var k solana.PublicKey
	for i := range k {
		k[i] = tag
	}
	return k
}

var (
	c19A = c19Key(0xA1)
	c19B = c19Key(0xB2)
	c19C = c19Key(0xC3)
	c19D = c19Key(0xD4)
	c19E = c19Key(0xE5)
	c19Z = c19Key(0x5A) // mentioned by no transaction
)

// one archived transaction of the fixture
type c19Tx struct {
	slot, pos    uint64
	vote, failed bool
	keys         []solana.PublicKey // all account keys of the message
	sig          solana.Signature
	label        string
	offset, size uint64 // CAR section
}

func (x *c19Tx) has(k solana.PublicKey) bool {
	for _, kk := range x.keys {
		if kk == k {
			return true
		}
	}
	return false
}

type c19TxSpec struct {
	vote, failed bool
	mention      []solana.PublicKey
	name         string
}

type c19BlockSpec struct {
	slot, parent uint64
	entries      [][]c19TxSpec
}

type c19Fixture struct {
	epoch  *Epoch
	multi  *MultiEpoch
	txs    []*c19Tx // in (slot, pos) order
	bySig  map[solana.Signature]*c19Tx
	blocks []uint64
}

func c19CidOf(t *testing.T, data []byte) cid.Cid {
	t.Helper()
	c, err := cid.Prefix{Version: 1, Codec: cid.DagCBOR, MhType: multihash.SHA2_256, MhLength: -1}.Sum(data)
	if err != nil {
		t.Fatal(err)
	}
	return c
}

func c19Sig(i int) solana.Signature {
	var s solana.Signature
	for k := 0; k < 8; k++ {
		binary.LittleEndian.PutUint64(s[k*8:], uint64(i+1)*0x9E3779B97F4A7C15+uint64(k)*0xD1B54A32D192ED03+1)
	}
	return s
}

// a well-formed legacy transaction: either a simple vote (one instruction of the Vote program, one signature) or a
// one-instruction System-program transaction mentioning the given accounts
func c19TxBytes(t *testing.T, n int, spec c19TxSpec) ([]byte, solana.Signature, []solana.PublicKey) {
	t.Helper()
	var payer solana.PublicKey
	payer[0] = 0x77
	binary.LittleEndian.PutUint64(payer[8:], uint64(n)+1)
	sig := c19Sig(n)
	var keys solana.PublicKeySlice
	var ix solana.CompiledInstruction
	if spec.vote {
		var voteAcct solana.PublicKey
		voteAcct[0] = 0x78
		binary.LittleEndian.PutUint64(voteAcct[8:], uint64(n)+1)
		keys = solana.PublicKeySlice{payer, voteAcct, solana.VoteProgramID}
		ix = solana.CompiledInstruction{ProgramIDIndex: 2, Accounts: []uint16{1, 0}, Data: []byte{12, 0, 0, 0}}
	} else {
		keys = append(solana.PublicKeySlice{payer}, spec.mention...)
		keys = append(keys, solana.SystemProgramID)
		accs := []uint16{0}
		for i := range spec.mention {
			accs = append(accs, uint16(i+1))
		}
		ix = solana.CompiledInstruction{ProgramIDIndex: uint16(len(keys) - 1), Accounts: accs, Data: []byte{2, 0, 0, 0, 1, 0, 0, 0, 0, 0, 0, 0}}
	}
	tx := &solana.Transaction{
		Signatures: []solana.Signature{sig},
		Message: solana.Message{
			Header:          solana.MessageHeader{NumRequiredSignatures: 1, NumReadonlyUnsignedAccounts: 1},
			AccountKeys:     keys,
			RecentBlockhash: solana.Hash{1, 2, 3},
			Instructions:    []solana.CompiledInstruction{ix},
		},
	}
	b, err := tx.MarshalBinary()
	if err != nil {
		t.Fatal(err)
	}
	return b, sig, keys
}

// zstd(protobuf TransactionStatusMeta), as stored in the Metadata frame of a Transaction node
func c19MetaBytes(t *testing.T, failed bool) []byte {
	t.Helper()
	m := &confirmed_block.TransactionStatusMeta{Fee: 5000, PreBalances: []uint64{10000, 1}, PostBalances: []uint64{5000, 1}}
	if failed {
		// bincode TransactionError::InstructionError(0, InstructionError::Custom(1))
		m.Err = &confirmed_block.TransactionError{Err: []byte{8, 0, 0, 0, 0, 25, 0, 0, 0, 1, 0, 0, 0}}
	}
	raw, err := proto.Marshal(m)
	if err != nil {
		t.Fatal(err)
	}
	z, err := tooling.CompressZstd(raw)
	if err != nil {
		t.Fatal(err)
	}
	return z
}

func c19Specs() []c19BlockSpec {
	pk := func(ks ...solana.PublicKey) []solana.PublicKey { return ks }
	vote := c19TxSpec{vote: true, name: "vote"}
	many := func(n int, k solana.PublicKey, name string) []c19TxSpec {
		out := make([]c19TxSpec, n)
		for i := range out {
			out[i] = c19TxSpec{mention: pk(k), name: name}
		}
		return out
	}
	return []c19BlockSpec{
		{slot: 1000, parent: 0, entries: [][]c19TxSpec{{vote, {mention: pk(c19A), name: "A"}}, {{mention: pk(c19B), name: "B"}}}},
		{slot: 1001, parent: 1000, entries: [][]c19TxSpec{{vote, {mention: pk(c19A, c19B), name: "A+B"}}}},
		{slot: 1003, parent: 1001, entries: [][]c19TxSpec{{{mention: pk(c19A, c19C), name: "A+C"}}, {vote, {mention: pk(c19C), failed: true, name: "C!failed"}}}},
		{slot: 1004, parent: 1003, entries: [][]c19TxSpec{{vote}}},
		{slot: 1007, parent: 1004, entries: [][]c19TxSpec{{{mention: pk(c19A), name: "A"}, {mention: pk(c19B, c19C), name: "B+C"}, vote}}},
		{slot: 2000, parent: 1007, entries: [][]c19TxSpec{many(130, c19D, "D")}},
		{slot: 2050, parent: 2000, entries: [][]c19TxSpec{many(3, c19E, "E")}},
		{slot: 2100, parent: 2050, entries: [][]c19TxSpec{many(120, c19E, "E")}},
	}
}

func c19Build(t *testing.T, withGsfa bool) *c19Fixture {
	t.Helper()
	dir := t.TempDir()
	ctx := context.Background()
	fx := &c19Fixture{bySig: map[solana.Signature]*c19Tx{}}

	// ---- CAR file (v1 layout: header section, then uvarint(len(cid)+len(data)) | cid | data sections) ----
	type sec struct {
		c            cid.Cid
		offset, size uint64
	}
	var car bytes.Buffer
	var allSecs []sec
	writeSection := func(data []byte) sec {
		c := c19CidOf(t, data)
		off := uint64(car.Len())
		var lb [binary.MaxVarintLen64]byte
		n := binary.PutUvarint(lb[:], uint64(len(c.Bytes())+len(data)))
		car.Write(lb[:n])
		car.Write(c.Bytes())
		car.Write(data)
		s := sec{c: c, offset: off, size: uint64(car.Len()) - off}
		allSecs = append(allSecs, s)
		return s
	}
	{
		hdr := []byte("\xa2eroots\x81\xd8\x2a\x45\x00\x01\x55\x00\x00gversion\x01") // {roots:[bafkqaaa], version:1}
		var lb [binary.MaxVarintLen64]byte
		n := binary.PutUvarint(lb[:], uint64(len(hdr)))
		car.Write(lb[:n])
		car.Write(hdr)
	}
	headerSize := uint64(car.Len())

	blockCids := map[uint64]cid.Cid{}
	sigCids := map[solana.Signature]cid.Cid{}
	metaOK, metaFailed := c19MetaBytes(t, false), c19MetaBytes(t, true)
	txCounter := 0
	for _, bs := range c19Specs() {
		pos := 0
		var entryLinks ipldbindcode.List__Link
		for ei, entry := range bs.entries {
			var txLinks ipldbindcode.List__Link
			for _, spec := range entry {
				raw, sig, keys := c19TxBytes(t, txCounter, spec)
				txCounter++
				meta := metaOK
				if spec.failed {
					meta = metaFailed
				}
				p := pos
				pp := &p
				node := &ipldbindcode.Transaction{
					Kind:     0,
					Data:     ipldbindcode.DataFrame{Kind: 6, Data: raw},
					Metadata: ipldbindcode.DataFrame{Kind: 6, Data: meta},
					Slot:     int(bs.slot),
					Index:    &pp,
				}
				data, err := node.MarshalCBOR()
				if err != nil {
					t.Fatal(err)
				}
				s := writeSection(data)
				x := &c19Tx{
					slot: bs.slot, pos: uint64(pos), vote: spec.vote, failed: spec.failed, keys: keys, sig: sig,
					label: fmt.Sprintf("%d/%d:%s", bs.slot, pos, spec.name), offset: s.offset, size: s.size,
				}
				fx.txs = append(fx.txs, x)
				fx.bySig[sig] = x
				sigCids[sig] = s.c
				txLinks = append(txLinks, datamodel.Link(cidlink.Link{Cid: s.c}))
				pos++
			}
			h := make([]byte, 32)
			binary.LittleEndian.PutUint64(h, bs.slot)
			h[31] = byte(ei + 1)
			en := &ipldbindcode.Entry{Kind: 1, NumHashes: 1, Hash: h, Transactions: txLinks}
			data, err := en.MarshalCBOR()
			if err != nil {
				t.Fatal(err)
			}
			s := writeSection(data)
			entryLinks = append(entryLinks, datamodel.Link(cidlink.Link{Cid: s.c}))
		}
		blk := &ipldbindcode.Block{
			Kind:    2,
			Slot:    int(bs.slot),
			Entries: entryLinks,
			Meta:    ipldbindcode.SlotMeta{Parent_slot: int(bs.parent), Blocktime: 1600000000 + int(bs.slot)},
			Rewards: cidlink.Link{Cid: DummyCID},
		}
		data, err := blk.MarshalCBOR()
		if err != nil {
			t.Fatal(err)
		}
		s := writeSection(data)
		blockCids[bs.slot] = s.c
		fx.blocks = append(fx.blocks, bs.slot)
	}
	carPath := filepath.Join(dir, "epoch-0.car")
	if err := os.WriteFile(carPath, car.Bytes(), 0o644); err != nil {
		t.Fatal(err)
	}

	// ---- indexes, with the repository's writers ----
	root := DummyCID
	var slotIdxPath, sigIdxPath, c2oPath string
	{
		w, err := indexes.NewWriter_SlotToCid(c19Epoch, root, indexes.NetworkMainnet, "", uint64(len(blockCids)))
		if err != nil {
			t.Fatal(err)
		}
		for slot, c := range blockCids {
			if err := w.Put(slot, c); err != nil {
				t.Fatal(err)
			}
		}
		if err := w.Seal(ctx, dir); err != nil {
			t.Fatal(err)
		}
		slotIdxPath = w.GetFilepath()
		w.Close()
	}
	{
		w, err := indexes.NewWriter_SigToCid(c19Epoch, root, indexes.NetworkMainnet, "", uint64(len(sigCids)))
		if err != nil {
			t.Fatal(err)
		}
		for sig, c := range sigCids {
			if err := w.Put(sig, c); err != nil {
				t.Fatal(err)
			}
		}
		if err := w.Seal(ctx, dir); err != nil {
			t.Fatal(err)
		}
		sigIdxPath = w.GetFilepath()
		w.Close()
	}
	{
		w, err := indexes.NewWriter_CidToOffsetAndSize(c19Epoch, root, indexes.NetworkMainnet, "", uint64(len(allSecs)))
		if err != nil {
			t.Fatal(err)
		}
		for _, s := range allSecs {
			if err := w.Put(s.c, s.offset, s.size); err != nil {
				t.Fatal(err)
			}
		}
		if err := w.Seal(ctx, dir); err != nil {
			t.Fatal(err)
		}
		c2oPath = w.GetFilepath()
		w.Close()
	}

	// ---- gsfa index, with the repository's writer (transactions pushed in CAR order, as the indexer does) ----
	var gsfaReader *gsfa.GsfaReader
	if withGsfa {
		gsfaDir := filepath.Join(dir, "gsfa")
		meta := indexmeta.Meta{}
		if err := meta.AddUint64(indexmeta.MetadataKey_Epoch, c19Epoch); err != nil {
			t.Fatal(err)
		}
		if err := meta.AddCid(indexmeta.MetadataKey_RootCid, root); err != nil {
			t.Fatal(err)
		}
		if err := meta.AddString(indexmeta.MetadataKey_Network, string(indexes.NetworkMainnet)); err != nil {
			t.Fatal(err)
		}
		w, err := gsfa.NewGsfaWriter(gsfaDir, meta, c19Epoch, root, indexes.NetworkMainnet, t.TempDir())
		if err != nil {
			t.Fatal(err)
		}
		for _, x := range fx.txs {
			if err := w.Push(x.offset, x.size, x.slot, solana.PublicKeySlice(x.keys), true, !x.failed, x.vote); err != nil {
				t.Fatal(err)
			}
		}
		if err := w.Close(); err != nil {
			t.Fatal(err)
		}
		gsfaReader, err = gsfa.NewGsfaReader(gsfaDir)
		if err != nil {
			t.Fatal(err)
		}
		t.Cleanup(func() { gsfaReader.Close() })
	}

	// ---- the Epoch ----
	slotToCid, err := indexes.Open_SlotToCid(slotIdxPath)
	if err != nil {
		t.Fatal(err)
	}
	sigToCid, err := indexes.Open_SigToCid(sigIdxPath)
	if err != nil {
		t.Fatal(err)
	}
	cidToOas, err := indexes.Open_CidToOffsetAndSize(c2oPath)
	if err != nil {
		t.Fatal(err)
	}
	carFile, err := os.Open(carPath)
	if err != nil {
		t.Fatal(err)
	}
	cache, err := hugecache.NewWithConfig(ctx, bigcache.DefaultConfig(60e9))
	if err != nil {
		t.Fatal(err)
	}
	bti := blocktimeindex.NewForEpoch(c19Epoch)
	for _, slot := range fx.blocks {
		if err := bti.Set(slot, 1600000000+int64(slot)); err != nil {
			t.Fatal(err)
		}
	}
	cfg := &Config{}
	cfg.Indexes.CidToOffsetAndSize.URI = URI(c2oPath)
	fx.epoch = &Epoch{
		epoch:                   c19Epoch,
		config:                  cfg,
		remoteCarReader:         carFile,
		carHeaderSize:           headerSize,
		rootCid:                 root,
		cidToOffsetAndSizeIndex: cidToOas,
		slotToCidIndex:          slotToCid,
		sigToCidIndex:           sigToCid,
		blocktimeindex:          bti,
		allCache:                cache,
		gsfaReader:              gsfaReader,
	}
	t.Cleanup(func() { slotToCid.Close(); sigToCid.Close(); cidToOas.Close(); carFile.Close() })
	fx.multi = NewMultiEpoch(&Options{EpochSearchConcurrency: 1})
	if err := fx.multi.AddEpoch(c19Epoch, fx.epoch); err != nil {
		t.Fatal(err)
	}
	return fx
}

// the property's oracle: labels of the archived transactions of [start, end] satisfying keep, in (slot, position) order
func (fx *c19Fixture) required(start, end uint64, keep func(*c19Tx) bool) []string {
	out := []string{}
	for _, x := range fx.txs {
		if x.slot >= start && x.slot <= end && (keep == nil || keep(x)) {
			out = append(out, x.label)
		}
	}
	return out
}

// ---- fake server streams ----

type c19TxStream struct {
	grpc.ServerStream
	ctx context.Context
	mu  sync.Mutex
	got []*old_faithful_grpc.TransactionResponse
}

func (s *c19TxStream) Context() context.Context { return s.ctx }
func (s *c19TxStream) Send(r *old_faithful_grpc.TransactionResponse) error {
	s.mu.Lock()
	defer s.mu.Unlock()
	s.got = append(s.got, r)
	return nil
}

func (s *c19TxStream) responses() []*old_faithful_grpc.TransactionResponse {
	s.mu.Lock()
	defer s.mu.Unlock()
	return append([]*old_faithful_grpc.TransactionResponse(nil), s.got...)
}

type c19BlockStream struct {
	grpc.ServerStream
	ctx    context.Context
	mu     sync.Mutex
	got    []*old_faithful_grpc.BlockResponse
	onSend func(n int) error
}

func (s *c19BlockStream) Context() context.Context { return s.ctx }
func (s *c19BlockStream) Send(r *old_faithful_grpc.BlockResponse) error {
	s.mu.Lock()
	defer s.mu.Unlock()
	s.got = append(s.got, r)
	if s.onSend != nil {
		return s.onSend(len(s.got))
	}
	return nil
}

var (
	_ old_faithful_grpc.OldFaithful_StreamTransactionsServer = (*c19TxStream)(nil)
	_ old_faithful_grpc.OldFaithful_StreamBlocksServer       = (*c19BlockStream)(nil)
)

// which archived transaction a response carries (by the first signature of the transaction bytes)
func (fx *c19Fixture) txOf(r *old_faithful_grpc.TransactionResponse) *c19Tx {
	if r.GetTransaction() == nil || len(r.GetTransaction().GetTransaction()) == 0 {
		return nil
	}
	tx, err := solana.TransactionFromDecoder(bin.NewBinDecoder(r.GetTransaction().GetTransaction()))
	if err != nil || len(tx.Signatures) == 0 {
		return nil
	}
	return fx.bySig[tx.Signatures[0]]
}

func (fx *c19Fixture) labels(rs []*old_faithful_grpc.TransactionResponse) []string {
	out := []string{}
	for _, r := range rs {
		if x := fx.txOf(r); x != nil {
			out = append(out, x.label)
		} else {
			out = append(out, fmt.Sprintf("<response without a transaction, Slot=%d>", r.GetSlot()))
		}
	}
	return out
}

func c19Show(ls []string) string {
	if len(ls) > 14 {
		return fmt.Sprintf("%d transactions [%s ... %s]", len(ls), strings.Join(ls[:3], " "), ls[len(ls)-1])
	}
	return fmt.Sprintf("%d transactions [%s]", len(ls), strings.Join(ls, " "))
}

func c19Equal(a, b []string) bool {
	if len(a) != len(b) {
		return false
	}
	for i := range a {
		if a[i] != b[i] {
			return false
		}
	}
	return true
}

func c19Strs(ks ...solana.PublicKey) []string {
	out := make([]string, len(ks))
	for i, k := range ks {
		out[i] = k.String()
	}
	return out
}

func c19Ptr[T any](v T) *T { return &v }

func (fx *c19Fixture) streamTx(t *testing.T, start, end uint64, f *old_faithful_grpc.StreamTransactionsFilter) ([]*old_faithful_grpc.TransactionResponse, error) {
	t.Helper()
	ser := &c19TxStream{ctx: context.Background()}
	err := fx.multi.StreamTransactions(&old_faithful_grpc.StreamTransactionsRequest{StartSlot: start, EndSlot: &end, Filter: f}, ser)
	return ser.responses(), err
}

type c19Case struct {
	tag, name  string
	start, end uint64
	filter     *old_faithful_grpc.StreamTransactionsFilter
	keep       func(*c19Tx) bool // the property: which archived transactions of the range the request selects
}

func (fx *c19Fixture) runCase(t *testing.T, c c19Case) {
	t.Helper()
	all, err := fx.streamTx(t, c.start, c.end, c.filter)
	// responses without a transaction (the gsfa branch's "nothing found" marker) are accounted for separately
	var got []*old_faithful_grpc.TransactionResponse
	empties := 0
	var notes []string
	for i, r := range all {
		if fx.txOf(r) == nil {
			empties++
			notes = append(notes, fmt.Sprintf("response #%d of %d carries no transaction: Slot=%d", i+1, len(all), r.GetSlot()))
		} else {
			got = append(got, r)
		}
	}
	streamed := fx.labels(got)
	required := fx.required(c.start, c.end, c.keep)
	fmt.Printf("C19/%s: %s, slots [%d,%d] -> err=%v\n", c.tag, c.name, c.start, c.end, err)
	fmt.Printf("C19/%s:    streamed: %s\n", c.tag, c19Show(streamed))
	for _, n := range notes {
		fmt.Printf("C19/%s:    (%s)\n", c.tag, n)
	}
	fmt.Printf("C19/%s:    required: %s\n", c.tag, c19Show(required))
	if err != nil {
		t.Errorf("C19/%s: %s: unexpected error %v", c.tag, c.name, err)
	}
	if !c19Equal(streamed, required) {
		t.Errorf("REPLAY-CONFIRMED C19/%s: %s over [%d,%d] streamed %s; the property requires %s", c.tag, c.name, c.start, c.end, c19Show(streamed), c19Show(required))
	}
	if empties > 0 && len(got) > 0 {
		t.Errorf("REPLAY-CONFIRMED C19/gsfa-empty-response: %s over [%d,%d]: after %d transactions the client is sent %d response(s) WITHOUT a transaction (the \"no transactions found\" marker; flush has emptied buffer.items)", c.name, c.start, c.end, len(got), empties)
	}
}

// D1: the filter predicate is applied with the wrong polarity (scan branch; no gsfa index loaded).
// All ranges used here contain no skipped slot, so that D2 does not interfere.
func TestReplayC19Polarity(t *testing.T) {
	fx := c19Build(t, false)
	T, F := c19Ptr(true), c19Ptr(false)
	vp := solana.VoteProgramID
	cases := []c19Case{
		{"polarity", "no filter", 1000, 1001, nil, nil},
		{"polarity", "filter{vote:true failed:true include:[A]}", 1000, 1001,
			&old_faithful_grpc.StreamTransactionsFilter{Vote: T, Failed: T, AccountInclude: c19Strs(c19A)},
			func(x *c19Tx) bool { return x.has(c19A) }},
		{"polarity", "filter{vote:true failed:true include:[A] exclude:[B]}", 1000, 1001,
			&old_faithful_grpc.StreamTransactionsFilter{Vote: T, Failed: T, AccountInclude: c19Strs(c19A), AccountExclude: c19Strs(c19B)},
			func(x *c19Tx) bool { return x.has(c19A) && !x.has(c19B) }},
		{"polarity", "filter{vote:true failed:true include:[A] required:[B]}", 1000, 1001,
			&old_faithful_grpc.StreamTransactionsFilter{Vote: T, Failed: T, AccountInclude: c19Strs(c19A), AccountRequired: c19Strs(c19B)},
			func(x *c19Tx) bool { return x.has(c19A) && x.has(c19B) }},
		{"polarity", "filter{vote:false failed:true include:[A,B,Vote111]}", 1000, 1001,
			&old_faithful_grpc.StreamTransactionsFilter{Vote: F, Failed: T, AccountInclude: c19Strs(c19A, c19B, vp)},
			func(x *c19Tx) bool { return !x.vote && (x.has(c19A) || x.has(c19B) || x.has(vp)) }},
		// an empty account_include list means "no include constraint" (that is how the gsfa-loaded server treats it: it
		// takes the scan branch and skips the include check); without gsfa the predicate rejects EVERY transaction, which
		// the inverted call site turns into "send every transaction", votes included
		{"polarity+empty-include", "filter{vote:false failed:true} (no account lists)", 1000, 1001,
			&old_faithful_grpc.StreamTransactionsFilter{Vote: F, Failed: T},
			func(x *c19Tx) bool { return !x.vote }},
		{"polarity+empty-include", "filter{vote:true failed:true exclude:[B]}", 1000, 1001,
			&old_faithful_grpc.StreamTransactionsFilter{Vote: T, Failed: T, AccountExclude: c19Strs(c19B)},
			func(x *c19Tx) bool { return !x.has(c19B) }},
		// (this one PASSES on the current code, by coincidence: getErr != nil and the empty include list make the predicate
		// reject everything, the inverted call site sends everything, and everything is what {vote:true} over a range
		// without failed transactions selects. It is here for the fixed code.)
		{"polarity+empty-include", "filter{vote:true} (failed unset, no account lists)", 1000, 1001,
			&old_faithful_grpc.StreamTransactionsFilter{Vote: T},
			func(x *c19Tx) bool { return !x.failed }},
		{"polarity+empty-include", "filter{vote:true failed:false} (no account lists)", 1003, 1004,
			&old_faithful_grpc.StreamTransactionsFilter{Vote: T, Failed: F},
			func(x *c19Tx) bool { return !x.failed }},
		{"polarity", "filter{vote:true failed:true required:[A,B] include:[A]}", 1000, 1001,
			&old_faithful_grpc.StreamTransactionsFilter{Vote: T, Failed: T, AccountInclude: c19Strs(c19A), AccountRequired: c19Strs(c19A, c19B)},
			func(x *c19Tx) bool { return x.has(c19A) && x.has(c19B) }},
		// failed:false must drop the failed transaction 1003/2 and nothing else
		{"failed-filter", "filter{vote:true failed:false include:[A,C,Vote111]}", 1003, 1004,
			&old_faithful_grpc.StreamTransactionsFilter{Vote: T, Failed: F, AccountInclude: c19Strs(c19A, c19C, vp)},
			func(x *c19Tx) bool { return !x.failed }},
		{"polarity", "filter{vote:true failed:true include:[A,C,Vote111]}", 1003, 1004,
			&old_faithful_grpc.StreamTransactionsFilter{Vote: T, Failed: T, AccountInclude: c19Strs(c19A, c19C, vp)},
			nil},
	}
	for _, c := range cases {
		fx.runCase(t, c)
	}
}

// the "failed" test of the predicate: getErr(meta) != nil. For a protobuf meta getErr returns a nil map[string]any
// wrapped in a non-nil interface, so a SUCCESSFUL transaction counts as failed.
func TestReplayC19GetErrOfSuccessfulTransaction(t *testing.T) {
	fx := c19Build(t, false)
	blk, err := fx.multi.GetBlock(context.Background(), &old_faithful_grpc.BlockRequest{Slot: 1003})
	if err != nil {
		t.Fatal(err)
	}
	for _, tx := range blk.Transactions {
		x := fx.txOf(&old_faithful_grpc.TransactionResponse{Transaction: tx})
		meta, err := solanatxmetaparsers.ParseAnyTransactionStatusMeta(tx.Meta)
		if err != nil || x == nil {
			t.Fatalf("meta of %v: %v", x, err)
		}
		e := getErr(meta)
		fmt.Printf("C19/failed-filter: %s: meta is %T, archived as failed=%v; getErr(meta) = %#v; getErr(meta) != nil is %v\n", x.label, meta, x.failed, e, e != nil)
		if (e != nil) != x.failed {
			t.Errorf("REPLAY-CONFIRMED C19/failed-filter: getErr(meta) != nil is %v for transaction %s archived with failed=%v", e != nil, x.label, x.failed)
		}
	}
}

// D2: a skipped slot ends the transaction stream (scan branch), although StreamBlocks skips over it.
func TestReplayC19SkippedSlotEndsStream(t *testing.T) {
	fx := c19Build(t, false)
	T := c19Ptr(true)
	const start, end = uint64(1000), uint64(1007)

	// StreamBlocks over the same range
	bser := &c19BlockStream{ctx: context.Background()}
	e := end
	err := fx.multi.StreamBlocks(&old_faithful_grpc.StreamBlocksRequest{StartSlot: start, EndSlot: &e}, bser)
	var bslots []uint64
	for _, b := range bser.got {
		bslots = append(bslots, b.Slot)
	}
	fmt.Printf("C19/skipped-slot: StreamBlocks [%d,%d] -> err=%v, blocks %v\n", start, end, err, bslots)
	if fmt.Sprint(bslots) != "[1000 1001 1003 1004 1007]" {
		t.Errorf("StreamBlocks did not deliver the five archived blocks: %v", bslots)
	}

	// StreamTransactions: filter{include:[A]}. The required set has transactions in 1003 and 1007 (A+C, A); the
	// complement (what the inverted call site sends) has transactions in 1003, 1004 and 1007 as well.
	f := &old_faithful_grpc.StreamTransactionsFilter{Vote: T, Failed: T, AccountInclude: c19Strs(c19A)}
	got, err := fx.streamTx(t, start, end, f)
	streamed := fx.labels(got)
	required := fx.required(start, end, func(x *c19Tx) bool { return x.has(c19A) })
	complement := fx.required(start, end, func(x *c19Tx) bool { return !x.has(c19A) })
	fmt.Printf("C19/skipped-slot: StreamTransactions [%d,%d] filter{vote:true failed:true include:[A]} -> err=%v\n", start, end, err)
	fmt.Printf("C19/skipped-slot:    streamed:   %s\n", c19Show(streamed))
	fmt.Printf("C19/skipped-slot:    required:   %s\n", c19Show(required))
	fmt.Printf("C19/skipped-slot:    (complement of the required set, for reference: %s)\n", c19Show(complement))
	maxSlot := uint64(0)
	for _, r := range got {
		if x := fx.txOf(r); x != nil && x.slot > maxSlot {
			maxSlot = x.slot
		}
	}
	if err == nil && maxSlot <= 1001 {
		t.Errorf("REPLAY-CONFIRMED C19/skipped-slot: StreamTransactions [%d,%d] returned nil after the skipped slot 1002: the last streamed transaction is of slot %d, nothing of the archived slots 1003, 1004, 1007 was streamed (StreamBlocks delivered %v)", start, end, maxSlot, bslots)
	}
	if !c19Equal(streamed, required) {
		t.Errorf("C19/skipped-slot: streamed %s; the property requires %s", c19Show(streamed), c19Show(required))
	}

	// no filter at all, whole range
	fx.runCase(t, c19Case{"skipped-slot", "no filter", start, end, nil, nil})
}

// D3: the scan branch does not fill TransactionResponse.Slot / .Index
func TestReplayC19SlotField(t *testing.T) {
	fx := c19Build(t, false)
	T := c19Ptr(true)
	// on the current code this streams the complement (vote, B, vote), with the fix (A, A+B); either way something
	got, err := fx.streamTx(t, 1000, 1001, &old_faithful_grpc.StreamTransactionsFilter{Vote: T, Failed: T, AccountInclude: c19Strs(c19A)})
	if err != nil || len(got) == 0 {
		t.Fatalf("inconclusive: %d responses, err=%v", len(got), err)
	}
	bad := 0
	for _, r := range got {
		x := fx.txOf(r)
		if x == nil {
			t.Fatalf("response without a known transaction")
		}
		idx := "nil"
		if r.Index != nil {
			idx = fmt.Sprint(*r.Index)
		}
		tidx := "nil"
		if r.Transaction.Index != nil {
			tidx = fmt.Sprint(*r.Transaction.Index)
		}
		fmt.Printf("C19/slot-field: transaction %s -> response.Slot=%d response.Index=%s response.Transaction.Index=%s response.BlockTime=%d\n", x.label, r.Slot, idx, tidx, r.BlockTime)
		if r.Slot != x.slot || r.Index == nil || *r.Index != x.pos {
			bad++
		}
	}
	if bad > 0 {
		t.Errorf("REPLAY-CONFIRMED C19/slot-field: %d of %d responses of the scan branch carry Slot/Index different from the slot/position of the transaction (Slot=0, Index=nil)", bad, len(got))
	}
}

// D4: for slot := startSlot; slot <= endSlot; slot++ with endSlot == MaxUint64 wraps around to slot 0
func TestReplayC19SlotWrapAround(t *testing.T) {
	fx := c19Build(t, false)
	ctx, cancel := context.WithCancel(context.Background())
	defer cancel()
	start, end := uint64(math.MaxUint64-1), uint64(math.MaxUint64)

	for _, s := range []uint64{start, end} {
		_, err := fx.multi.GetBlock(ctx, &old_faithful_grpc.BlockRequest{Slot: s})
		fmt.Printf("C19/slot-wrap: GetBlock(%d) -> code=%v (%v)\n", s, status.Code(err), err)
	}

	ser := &c19BlockStream{ctx: ctx}
	ser.onSend = func(n int) error {
		cancel() // end the replay after the first delivered block
		return errors.New("c19: client went away after the first block")
	}
	done := make(chan error, 1)
	go func() {
		done <- fx.multi.StreamBlocks(&old_faithful_grpc.StreamBlocksRequest{StartSlot: start, EndSlot: &end}, ser)
	}()
	select {
	case err := <-done:
		fmt.Printf("C19/slot-wrap: StreamBlocks [%d,%d] returned %v\n", start, end, err)
	case <-time.After(120 * time.Second):
		cancel()
		t.Errorf("REPLAY-CONFIRMED C19/slot-wrap: StreamBlocks [%d,%d] still running after 120 s", start, end)
		<-done
	}
	ser.mu.Lock()
	defer ser.mu.Unlock()
	for _, b := range ser.got {
		fmt.Printf("C19/slot-wrap: block sent to the client: slot %d (%d transactions)\n", b.Slot, len(b.Transactions))
		if b.Slot < start {
			t.Errorf("REPLAY-CONFIRMED C19/slot-wrap: StreamBlocks for the range [%d,%d] sent the block of slot %d (the slot counter wrapped to 0 and went on upwards)", start, end, b.Slot)
		}
	}
	if len(ser.got) == 0 {
		fmt.Printf("C19/slot-wrap: no block sent (the range contains no archived block)\n")
	}
}

// D5: (*txBuffer).flush does not terminate for endSlot == MaxUint64
func TestReplayC19FlushWrapAround(t *testing.T) {
	c19Flush(t, "flush-wrap", math.MaxUint64-1, math.MaxUint64, math.MaxUint64,
		"currentSlot wrapped to 0; the loop condition currentSlot <= MaxUint64 is always true")
}

// ... and for a large client-supplied range it visits every slot number of the range, holding the buffer lock, without
// looking at the stream's context (which is checked only before a Send): the handler goroutine outlives a cancelled request.
func TestReplayC19FlushHugeRange(t *testing.T) {
	c19Flush(t, "flush-range", 1000, 1<<62, 1000,
		"2^62 iterations to go; the client cancelled the stream right after receiving the transaction, but the outer loop does not consult the stream context")
}

func c19Flush(t *testing.T, tag string, start, end, txSlot uint64, why string) {
	b := newTxBuffer(start, end)
	b.add(txSlot, 0, &old_faithful_grpc.TransactionResponse{Slot: txSlot, Index: c19Ptr(uint64(0))})
	ctx, cancel := context.WithCancel(context.Background())
	ser := &c19TxStream{ctx: ctx}
	if tag == "flush-range" {
		// the client goes away as soon as it has received the transaction
		defer cancel()
		go func() {
			for len(ser.responses()) == 0 {
				time.Sleep(time.Millisecond)
			}
			cancel()
		}()
	} else {
		defer cancel()
	}
	done := make(chan error, 1)
	go func() { done <- b.flush(ser) }()
	select {
	case err := <-done:
		fmt.Printf("C19/%s: newTxBuffer(%d, %d).flush returned %v after sending %d responses\n", tag, start, end, err, len(ser.responses()))
	case <-time.After(500 * time.Millisecond):
		n := len(ser.responses())
		t.Errorf("REPLAY-CONFIRMED C19/%s: newTxBuffer(%d, %d).flush has sent its %d response(s) and is still running after 500 ms (%s)", tag, start, end, n, why)
		// stop the leaked goroutine (a deliberately unsynchronised write; only to release the CPU for the other tests)
		b.endSlot = 0
		select {
		case <-done:
			fmt.Printf("C19/%s: the loop ended only after the test overwrote endSlot\n", tag)
		case <-time.After(5 * time.Second):
			fmt.Printf("C19/%s: the goroutine is still spinning; leaking it\n", tag)
		}
	}
	if n := len(ser.responses()); n != 1 {
		t.Errorf("flush sent %d responses, want 1", n)
	}
}

// D1 (second call site) and D6, with a gsfa index loaded: the gsfa branch
func TestReplayC19GsfaBranch(t *testing.T) {
	fx := c19Build(t, true)
	T, F := c19Ptr(true), c19Ptr(false)

	// polarity at the call site of the gsfa branch: every transaction found through gsfa that the predicate keeps is dropped;
	// the client receives one response without a transaction
	fx.runCase(t, c19Case{"polarity-gsfa", "gsfa loaded, filter{vote:true failed:true include:[A]}", 1000, 1007,
		&old_faithful_grpc.StreamTransactionsFilter{Vote: T, Failed: T, AccountInclude: c19Strs(c19A)},
		func(x *c19Tx) bool { return x.has(c19A) }})
	fx.runCase(t, c19Case{"polarity-gsfa", "gsfa loaded, filter{vote:true failed:true include:[A,B] exclude:[C]}", 1000, 1007,
		&old_faithful_grpc.StreamTransactionsFilter{Vote: T, Failed: T, AccountInclude: c19Strs(c19A, c19B), AccountExclude: c19Strs(c19C)},
		func(x *c19Tx) bool { return (x.has(c19A) || x.has(c19B)) && !x.has(c19C) }})

	// D6: batchSize = 100 is the LIMIT of the gsfa query. With failed:false the two defects "polarity" and
	// "getErr != nil for successful transactions" cancel out on the current code, so that the successful transactions of D
	// ARE streamed - but only 100 of the 130.
	fx.runCase(t, c19Case{"gsfa-limit", "gsfa loaded, filter{vote:true failed:false include:[D]}", 2000, 2000,
		&old_faithful_grpc.StreamTransactionsFilter{Vote: T, Failed: F, AccountInclude: c19Strs(c19D)},
		func(x *c19Tx) bool { return x.has(c19D) && !x.failed }})
	// ... and the limit is consumed from the NEWEST transaction of the account in the epoch downwards, not from endSlot:
	// E has 120 transactions in slot 2100 (after the range) and 3 in slot 2050 (inside the range [2040,2060])
	fx.runCase(t, c19Case{"gsfa-limit", "gsfa loaded, filter{vote:true failed:false include:[E]}", 2040, 2060,
		&old_faithful_grpc.StreamTransactionsFilter{Vote: T, Failed: F, AccountInclude: c19Strs(c19E)},
		func(x *c19Tx) bool { return x.has(c19E) && !x.failed }})
	// an included account without any transaction in the range: the documented answer is one empty response
	got, err := fx.streamTx(t, 1000, 1007, &old_faithful_grpc.StreamTransactionsFilter{Vote: T, Failed: T, AccountInclude: c19Strs(c19Z)})
	fmt.Printf("C19/gsfa-empty-response: gsfa loaded, include:[Z] (an account without transactions) [1000,1007] -> err=%v, %s\n", err, c19Show(fx.labels(got)))
	if err != nil || len(got) != 1 || fx.txOf(got[0]) != nil || got[0].GetSlot() != 1000 {
		t.Errorf("include:[Z]: want exactly the one empty response {Slot: startSlot}")
	}
}
