package main

// Replay: turn a solver model into a concrete call of the real function, injected as an in-package test
// with `go test -overlay` (nothing is written under the repository).

import (
	"context"
	"encoding/json"
	"fmt"
	"go/ast"
	"go/token"
	"go/types"
	"math/big"
	"os"
	"os/exec"
	"path/filepath"
	"regexp"
	"strconv"
	"strings"
	"time"
)

type rvalue struct {
	goExpr string   // Go expression constructing the value
	pre    []string // statements to run before (declarations)
	ghost  string   // for readers: name of the []byte holding the file content
	pos    string   // for stream readers: Go expression of the current ghost position consumed(r)
	pos0   string   // ... and of the position before the call
}

type replayCtx struct {
	streamPos []string // realistic-position constraints of stream reader parameters (0 <= consumed <= size)
	eng       *Engine
	res       *UnitResult
	o         *Obligation
	u         *Unit
	query     string
	n         int
	pkg       *types.Package
	notes     []string
	helpers   []string
	collect   bool
	want      []string
	cache     map[string]string
	bound     int64
}

func (rc *replayCtx) getValues(terms []string) (map[string]string, error) {
	if len(terms) == 0 {
		return map[string]string{}, nil
	}
	if rc.collect {
		out := map[string]string{}
		for _, t := range terms {
			rc.want = append(rc.want, t)
			out[t] = "1"
		}
		return out, nil
	}
	if rc.cache != nil {
		out := map[string]string{}
		for _, t := range terms {
			v, ok := rc.cache[t]
			if !ok {
				return nil, fmt.Errorf("value of %s was not collected", t)
			}
			out[t] = v
		}
		return out, nil
	}
	return rc.solveValues(terms)
}

func (rc *replayCtx) solveValues(terms []string) (map[string]string, error) {
	q := strings.TrimSuffix(rc.query, "(get-model)\n")
	var b strings.Builder
	b.WriteString(q)
	for _, t := range terms {
		fmt.Fprintf(&b, "(get-value (%s))\n", t)
	}
	dir := filepath.Join(rc.eng.verifDir, "out", replayTmpName())
	os.MkdirAll(dir, 0o755)
	rc.n++
	file := filepath.Join(dir, fmt.Sprintf("%s-%d.smt2", sanitizeFile(rc.o.Name), rc.n))
	os.WriteFile(file, []byte(b.String()), 0o644)
	defer os.Remove(file)
	ctx, cancel := context.WithTimeout(context.Background(), 30*time.Second)
	defer cancel()
	out, _ := exec.CommandContext(ctx, "z3-new", "-T:20", "smt.random_seed=0", file).CombinedOutput()
	lines := strings.Split(string(out), "\n")
	if len(lines) == 0 || strings.TrimSpace(lines[0]) != "sat" {
		return nil, fmt.Errorf("solver did not reproduce sat when asked for values: %s", firstLines(string(out), 2))
	}
	text := strings.Join(lines[1:], "\n")
	vals := map[string]string{}
	// each get-value prints ((term value))
	items := splitSexp(text)
	if len(items) != len(terms) {
		return nil, fmt.Errorf("unexpected get-value output (%d items for %d terms)", len(items), len(terms))
	}
	for i, it := range items {
		inner := strings.TrimSpace(it)
		inner = inner[1 : len(inner)-1] // strip outer parens -> (term value)
		inner = strings.TrimSpace(inner)
		parts := splitSexp(inner[1 : len(inner)-1])
		if len(parts) < 2 {
			return nil, fmt.Errorf("cannot parse value for %s", terms[i])
		}
		vals[terms[i]] = parts[len(parts)-1]
	}
	return vals, nil
}

var reBvHex = regexp.MustCompile(`^#x([0-9a-fA-F]+)$`)
var reBvBin = regexp.MustCompile(`^#b([01]+)$`)

func parseSMTInt(v string) (string, bool) {
	v = strings.TrimSpace(v)
	if m := reBvHex.FindStringSubmatch(v); m != nil {
		n, err := strconv.ParseUint(m[1], 16, 64)
		if err != nil {
			return "", false
		}
		return strconv.FormatUint(n, 10), true
	}
	if m := reBvBin.FindStringSubmatch(v); m != nil {
		n, err := strconv.ParseUint(m[1], 2, 64)
		if err != nil {
			return "", false
		}
		return strconv.FormatUint(n, 10), true
	}
	if strings.HasPrefix(v, "(- ") {
		return "-" + strings.TrimSuffix(strings.TrimPrefix(v, "(- "), ")"), true
	}
	if _, err := strconv.ParseInt(v, 10, 64); err == nil {
		return v, true
	}
	if _, err := strconv.ParseUint(v, 10, 64); err == nil {
		return v, true
	}
	return "", false
}

func (rc *replayCtx) typeStr(t types.Type) (string, bool) {
	ok := true
	s := types.TypeString(t, func(p *types.Package) string {
		if p == rc.pkg {
			return ""
		}
		ok = false
		return p.Name()
	})
	return s, ok
}

// intLit renders an integer model value as a Go expression of type t (handles signed BV values).
func intLit(v string, t types.Type, bv bool) string {
	bits, signed, _ := intInfo(t)
	if !bv {
		if bi, ok := new(big.Int).SetString(v, 10); ok {
			return wrapBig(bi, bits, signed).String()
		}
	}
	if bv && signed {
		if n, err := strconv.ParseUint(v, 10, 64); err == nil && bits <= 64 {
			if bits < 64 {
				if n >= 1<<(uint(bits)-1) {
					return fmt.Sprintf("%d", int64(n)-int64(1)<<uint(bits))
				}
			} else {
				return fmt.Sprintf("%d", int64(n))
			}
		}
	}
	return v
}

// build constructs a Go value of type t equal to the model value of SMT term s.
func (rc *replayCtx) build(s string, t types.Type, depth int) (rvalue, error) {
	u := rc.u
	c := u.c
	if depth > 4 {
		return rvalue{}, fmt.Errorf("value too deep")
	}
	switch types.TypeString(t, nil) {
	case "*bufio.Reader", "*bytes.Reader", "*io.SectionReader":
		// external reader types built from the ghost file content
		vals, err := rc.getValues([]string{s})
		if err != nil {
			return rvalue{}, err
		}
		if vals[s] == "0" && !rc.collect {
			return rvalue{goExpr: fmt.Sprintf("(%s)(nil)", types.TypeString(t, func(p *types.Package) string { return p.Name() }))}, nil
		}
		if rd, ok := rc.readerValue(s, t); ok {
			return rd, nil
		}
		return rvalue{}, fmt.Errorf("reader %s: the model's ghost file / position cannot be built", t)
	}
	ts, ok := rc.typeStr(t)
	if !ok {
		// a few external types we know how to build
		if n, isNamed := t.(*types.Named); !isNamed || n.Obj().Pkg() == nil {
			return rvalue{}, fmt.Errorf("type %s not constructible in the package test", t)
		}
	}
	if _, _, isInt := intInfo(t); isInt {
		vals, err := rc.getValues([]string{s})
		if err != nil {
			return rvalue{}, err
		}
		v, ok := parseSMTInt(vals[s])
		if !ok {
			return rvalue{}, fmt.Errorf("cannot parse integer value %q", vals[s])
		}
		return rvalue{goExpr: fmt.Sprintf("%s(%s)", ts, intLit(v, t, c.bv))}, nil
	}
	if types.TypeString(t, nil) == "context.Context" {
		return rvalue{goExpr: "context.Background()"}, nil
	}
	if isBoolType(t) {
		vals, err := rc.getValues([]string{s})
		if err != nil {
			return rvalue{}, err
		}
		return rvalue{goExpr: vals[s]}, nil
	}
	if isErrorType(t) {
		vals, err := rc.getValues([]string{s})
		if err != nil {
			return rvalue{}, err
		}
		if vals[s] == "0" {
			return rvalue{goExpr: "error(nil)"}, nil
		}
		return rvalue{goExpr: `error(fmt.Errorf("replay error"))`}, nil
	}
	if isStringType(t) {
		term := "(gstr.len " + s + ")"
		vals, err := rc.getValues([]string{term})
		if err != nil {
			return rvalue{}, err
		}
		lnS, _ := parseSMTInt(vals[term])
		ln, _ := strconv.ParseInt(lnS, 10, 64)
		if ln < 0 || ln > 1<<16 {
			return rvalue{}, fmt.Errorf("string of length %d not replayable", ln)
		}
		return rvalue{goExpr: fmt.Sprintf("%s(strings.Repeat(\"a\", %d))", ts, ln)}, nil
	}
	switch ut := t.Underlying().(type) {
	case *types.Slice:
		elem := ut.Elem()
		if _, _, isInt := intInfo(elem); !isInt {
			if _, isStruct := elem.Underlying().(*types.Struct); !isStruct {
				return rvalue{}, fmt.Errorf("slice of %s not supported in replay", elem)
			}
		}
		vals, err := rc.getValues([]string{sLen(s), sRef(s)})
		if err != nil {
			return rvalue{}, err
		}
		lnS, ok := parseSMTInt(vals[sLen(s)])
		if !ok {
			return rvalue{}, fmt.Errorf("cannot parse slice length")
		}
		ln, _ := strconv.ParseInt(lnS, 10, 64)
		if rc.collect {
			ln = rc.bound
			if depth > 0 && ln > 16 {
				ln = 16
			}
		}
		if ln > rc.bound || (depth > 0 && ln > 16) {
			return rvalue{}, fmt.Errorf("model needs a slice of %d elements: too large to replay", ln)
		}
		if vals[sRef(s)] == "0" && ln == 0 {
			return rvalue{goExpr: fmt.Sprintf("%s(nil)", ts)}, nil
		}
		h := u.elemHeap(elem)
		blk := fmt.Sprintf("(select %s@0 %s)", h, sRef(s))
		var elems []string
		if _, _, isInt := intInfo(elem); isInt {
			var terms []string
			for i := int64(0); i < ln; i++ {
				terms = append(terms, fmt.Sprintf("(select %s %s)", blk, c.idxAdd(sOff(s), c.idxConst(i))))
			}
			ev, err := rc.getValues(terms)
			if err != nil {
				return rvalue{}, err
			}
			for _, tm := range terms {
				v, ok := parseSMTInt(ev[tm])
				if !ok {
					return rvalue{}, fmt.Errorf("cannot parse element value %q", ev[tm])
				}
				elems = append(elems, intLit(v, elem, c.bv))
			}
		} else {
			for i := int64(0); i < ln && i < 64; i++ {
				ev, err := rc.build(fmt.Sprintf("(select %s %s)", blk, c.idxAdd(sOff(s), c.idxConst(i))), elem, depth+1)
				if err != nil {
					return rvalue{}, err
				}
				elems = append(elems, ev.goExpr)
			}
		}
		return rvalue{goExpr: fmt.Sprintf("%s{%s}", ts, strings.Join(elems, ", "))}, nil
	case *types.Array:
		if ut.Len() > 4096 {
			return rvalue{}, fmt.Errorf("array too large")
		}
		var elems []string
		for i := int64(0); i < ut.Len(); i++ {
			ev, err := rc.build(fmt.Sprintf("(select %s %s)", s, c.idxConst(i)), ut.Elem(), depth+1)
			if err != nil {
				return rvalue{}, err
			}
			elems = append(elems, ev.goExpr)
		}
		return rvalue{goExpr: fmt.Sprintf("%s{%s}", ts, strings.Join(elems, ", "))}, nil
	case *types.Struct:
		if !ok {
			return rvalue{}, fmt.Errorf("struct type %s is not from the package under test", t)
		}
		name := c.sortOf(t)
		var fs []string
		var pre []string
		for i := 0; i < ut.NumFields(); i++ {
			f := ut.Field(i)
			fv, err := rc.build(fmt.Sprintf("(%s.%s %s)", name, fldName(f, i), s), f.Type(), depth+1)
			if err != nil {
				// fields we cannot build keep their zero value
				rc.notes = append(rc.notes, fmt.Sprintf("field %s left zero: %v", f.Name(), err))
				continue
			}
			pre = append(pre, fv.pre...)
			fs = append(fs, fmt.Sprintf("%s: %s", f.Name(), fv.goExpr))
		}
		return rvalue{goExpr: fmt.Sprintf("%s{%s}", ts, strings.Join(fs, ", ")), pre: pre}, nil
	case *types.Pointer:
		vals, err := rc.getValues([]string{s})
		if err != nil {
			return rvalue{}, err
		}
		if vals[s] == "0" && !rc.collect {
			return rvalue{goExpr: fmt.Sprintf("(%s)(nil)", ts)}, nil
		}
		// external reader types used as files
		if rd, ok := rc.readerValue(s, t); ok {
			return rd, nil
		}
		pointee := ut.Elem()
		var cell string
		if at, isArr := pointee.Underlying().(*types.Array); isArr {
			cell = fmt.Sprintf("(select %s@0 %s)", u.elemHeap(at.Elem()), s)
		} else {
			cell = fmt.Sprintf("(select %s@0 %s)", u.ptrHeap(pointee), s)
		}
		pv, err := rc.build(cell, pointee, depth+1)
		if err != nil {
			return rvalue{}, err
		}
		rc.n++
		nm := fmt.Sprintf("cell%d", rc.n)
		pre := append(pv.pre, fmt.Sprintf("%s := %s", nm, pv.goExpr))
		return rvalue{goExpr: "&" + nm, pre: pre}, nil
	case *types.Interface:
		if rd, ok := rc.readerValue(s, t); ok {
			return rd, nil
		}
	}
	return rvalue{}, fmt.Errorf("type %s not supported in replay", t)
}

// readerValue builds an io.ReaderAt (bytes.Reader / io.SectionReader) from the ghost file content of the model.
func (rc *replayCtx) readerValue(s string, t types.Type) (rvalue, bool) {
	name := types.TypeString(t, nil)
	stream := name == "*bufio.Reader" || name == "io.ByteReader" || name == "*bytes.Reader" || name == "io.Reader"
	if name != "io.ReaderAt" && name != "*io.SectionReader" && !stream {
		return rvalue{}, false
	}
	if !rc.u.c.declared["rd.size"] {
		return rvalue{}, false
	}
	c := rc.u.c
	vals, err := rc.getValues([]string{"(rd.size " + s + ")"})
	if err != nil {
		return rvalue{}, false
	}
	szS, ok := parseSMTInt(vals["(rd.size "+s+")"])
	if !ok {
		return rvalue{}, false
	}
	sz, _ := strconv.ParseInt(szS, 10, 64)
	if sz < 0 {
		sz = 0
	}
	if rc.collect {
		sz = rc.bound
	}
	if sz > rc.bound {
		rc.notes = append(rc.notes, fmt.Sprintf("ghost file of %d bytes truncated to %d for replay", sz, rc.bound))
		sz = rc.bound
	}
	var terms []string
	for i := int64(0); i < sz; i++ {
		terms = append(terms, fmt.Sprintf("(select (rd.content %s) %s)", s, c.idxConst(i)))
	}
	ev, err := rc.getValues(terms)
	if err != nil {
		return rvalue{}, false
	}
	var bs []string
	for _, tm := range terms {
		v, _ := parseSMTInt(ev[tm])
		bs = append(bs, v)
	}
	rc.n++
	g := fmt.Sprintf("ghostfile%d", rc.n)
	pre := []string{fmt.Sprintf("%s := []byte{%s}", g, strings.Join(bs, ", "))}
	if stream && rc.u.c.heapNames["HG_consumed"] != "" {
		// a stream reader positioned at consumed(r): the ghost content is absolute, the real reader starts at that position
		ct := "(select HG_consumed@0 " + s + ")"
		cv, err := rc.getValues([]string{ct})
		if err != nil {
			return rvalue{}, false
		}
		startS, _ := parseSMTInt(cv[ct])
		start, _ := strconv.ParseInt(startS, 10, 64)
		if start < 0 || start > sz {
			if !rc.collect {
				return rvalue{}, false // the model puts the stream position outside the file: not a real reader state
			}
			start = 0
		}
		under := fmt.Sprintf("under%d", rc.n)
		pre = append(pre, fmt.Sprintf("%s := bytes.NewReader(%s[%d:])", under, g, start))
		pos := fmt.Sprintf("(%d + len(%s) - %d - %s.Len())", start, g, start, under)
		expr := under
		if name == "*bufio.Reader" || name == "io.ByteReader" {
			br := fmt.Sprintf("bufrd%d", rc.n)
			pre = append(pre, fmt.Sprintf("%s := bufio.NewReader(%s)", br, under))
			pos = fmt.Sprintf("(%d + len(%s) - %d - %s.Len() - %s.Buffered())", start, g, start, under, br)
			expr = br
		}
		return rvalue{goExpr: expr, pre: pre, ghost: g, pos: pos, pos0: fmt.Sprint(start)}, true
	}
	expr := fmt.Sprintf("bytes.NewReader(%s)", g)
	if name == "*io.SectionReader" {
		expr = fmt.Sprintf("io.NewSectionReader(bytes.NewReader(%s), 0, int64(len(%s)))", g, g)
	}
	return rvalue{goExpr: expr, pre: pre, ghost: g}, true
}

func replayObligation(eng *Engine, res *UnitResult, o *Obligation) (bool, string) {
	if res.Pkg == "theory" || res.unit == nil || res.unit.decl == nil {
		return false, "obligation is not about a function of the repository"
	}
	u := res.unit
	rc := &replayCtx{eng: eng, res: res, o: o, u: u, query: finalQuery(res.Ctx, o.Query), pkg: u.pkg.Types}
	sig := u.sig
	rc.preferSmall()
	if sig.TypeParams() != nil && sig.TypeParams().Len() > 0 {
		return false, "generic function: no replay"
	}
	var pre []string
	var args []string
	ghostOf := map[string]string{}
	recvExpr := ""
	bind := func(v *types.Var) (string, error) {
		if v.Name() == "" || v.Name() == "_" {
			z, ok := rc.typeStr(v.Type())
			if !ok {
				return "", fmt.Errorf("unnamed parameter of external type")
			}
			return fmt.Sprintf("*new(%s)", z), nil
		}
		sym := u.paramSyms[v.Name()]
		rv, err := rc.build(sym, v.Type(), 0)
		if err != nil {
			return "", fmt.Errorf("parameter %s: %v", v.Name(), err)
		}
		pre = append(pre, rv.pre...)
		ts, ok := rc.typeStr(v.Type())
		if !ok {
			ts = types.TypeString(v.Type(), func(p *types.Package) string { return p.Name() })
		}
		pre = append(pre, fmt.Sprintf("var a_%s %s = %s", v.Name(), ts, rv.goExpr))
		pre = append(pre, fmt.Sprintf("_ = a_%s", v.Name()))
		if rv.ghost != "" {
			ghostOf[v.Name()] = rv.ghost
			if rv.pos != "" {
				ghostOf[v.Name()+"#pos"] = rv.pos
				ghostOf[v.Name()+"#pos0"] = rv.pos0
			}
		}
		return "a_" + v.Name(), nil
	}
	bindAll := func() error {
		pre, args, recvExpr = nil, nil, ""
		if sig.Recv() != nil {
			r, err := bind(sig.Recv())
			if err != nil {
				return err
			}
			recvExpr = r
		}
		for i := 0; i < sig.Params().Len(); i++ {
			a, err := bind(sig.Params().At(i))
			if err != nil {
				return err
			}
			if sig.Variadic() && i == sig.Params().Len()-1 {
				a += "..."
			}
			args = append(args, a)
		}
		return nil
	}
	// pass 1: collect every term whose value is needed; one solver call; pass 2: construct
	rc.collect = true
	if err := bindAll(); err != nil {
		return false, err.Error()
	}
	rc.collect = false
	rc.notes = nil
	vals, err := rc.solveValues(uniqStrings(rc.want))
	if err != nil {
		return false, err.Error()
	}
	rc.cache = vals
	rc.n = 0
	if err := bindAll(); err != nil {
		return false, err.Error()
	}
	call := u.decl.Name.Name + "(" + strings.Join(args, ", ") + ")"
	if recvExpr != "" {
		call = recvExpr + "." + call
	}
	var results []string
	for i := 0; i < sig.Results().Len(); i++ {
		results = append(results, fmt.Sprintf("r%d", i))
	}
	// postcondition in Go, when the failed obligation is a post
	postCheck := ""
	if o.Group == "post" && u.ct != nil {
		var idx int
		if _, err := fmt.Sscanf(o.Kind, "post#%d", &idx); err == nil && idx < len(u.ct.Ensures) {
			tr := &specTranslator{u: u, rename: map[string]string{}, ghostOf: ghostOf}
			for i := 0; i < sig.Params().Len(); i++ {
				if n := sig.Params().At(i).Name(); n != "" && n != "_" {
					tr.rename[n] = "a_" + n
				}
			}
			if sig.Recv() != nil && sig.Recv().Name() != "" {
				tr.rename[sig.Recv().Name()] = "a_" + sig.Recv().Name()
			}
			for i := 0; i < sig.Results().Len(); i++ {
				tr.rename[fmt.Sprintf("result%d", i)] = fmt.Sprintf("r%d", i)
				if n := sig.Results().At(i).Name(); n != "" && n != "_" {
					tr.rename[n] = fmt.Sprintf("r%d", i)
				}
			}
			if sig.Results().Len() >= 1 {
				tr.rename["result"] = "r0"
			}
			g, err := tr.translate(u.ct.Ensures[idx].Expr)
			if err != nil {
				return false, "postcondition not executable in replay: " + err.Error()
			}
			postCheck = g
			pre = append(pre, tr.preCall...)
			rc.helpers = append(rc.helpers, tr.helpers...)
			if tr.needOld {
				// snapshots of the arguments for old(...)
				snap := func(v *types.Var) {
					if v == nil || v.Name() == "" || v.Name() == "_" {
						return
					}
					a := "a_" + v.Name()
					switch ut := v.Type().Underlying().(type) {
					case *types.Slice:
						ts, _ := rc.typeStr(v.Type())
						pre = append(pre, fmt.Sprintf("old_%s := append(%s(nil), %s...)", a, ts, a))
					case *types.Pointer:
						ts, _ := rc.typeStr(ut.Elem())
						pre = append(pre, fmt.Sprintf("old_%s := new(%s)", a, ts), fmt.Sprintf("if %s != nil { *old_%s = *%s }", a, a, a))
					default:
						pre = append(pre, fmt.Sprintf("old_%s := %s", a, a))
					}
					pre = append(pre, fmt.Sprintf("_ = old_%s", a))
				}
				snap(sig.Recv())
				for i := 0; i < sig.Params().Len(); i++ {
					snap(sig.Params().At(i))
				}
			}
		}
	} else if o.Group != "safety" && o.Group != "pre" && o.Group != "overflow" {
		return false, "obligation kind " + o.Group + " has no executable counterpart"
	}
	if o.Group == "pre" || o.Group == "overflow" {
		// a violated callee precondition usually shows as a panic further down; try the call anyway
	}
	// the input must satisfy the function's precondition, otherwise a panic proves nothing
	reqCheck := ""
	if u.ct != nil && len(u.ct.Requires) > 0 {
		tr := &specTranslator{u: u, rename: map[string]string{}, ghostOf: ghostOf}
		for i := 0; i < sig.Params().Len(); i++ {
			if n := sig.Params().At(i).Name(); n != "" && n != "_" {
				tr.rename[n] = "a_" + n
			}
		}
		if sig.Recv() != nil && sig.Recv().Name() != "" {
			tr.rename[sig.Recv().Name()] = "a_" + sig.Recv().Name()
		}
		var parts []string
		for _, r := range u.ct.Requires {
			g, err := tr.translate(r.Expr)
			if err != nil {
				return false, "precondition not executable in replay (" + err.Error() + "): a failure of the call would not be conclusive"
			}
			parts = append(parts, "("+g+")")
		}
		reqCheck = strings.Join(parts, " && ")
		rc.helpers = append(rc.helpers, tr.helpers...)
	}
	for _, n := range rc.notes {
		if strings.Contains(n, "left zero") {
			return false, "the model's input could not be constructed completely (" + n + "): replay would not be conclusive"
		}
	}
	var b strings.Builder
	fmt.Fprintf(&b, "package %s\n\nimport (\n\t\"bufio\"\n\t\"bytes\"\n\t\"context\"\n\t\"fmt\"\n\t\"io\"\n\t\"strings\"\n\t\"testing\"\n)\n\nvar _ = strings.Repeat\nvar _ = bytes.NewReader\nvar _ = io.EOF\nvar _ = fmt.Sprint\nvar _ = bufio.NewReader\nvar _ = context.Background\n\n", u.pkg.Types.Name())
	b.WriteString("func vite[T any](c bool, a, b T) T {\n\tif c {\n\t\treturn a\n\t}\n\treturn b\n}\n\n")
	for _, h := range rc.helpersFor(postCheck) {
		b.WriteString(h)
		b.WriteString("\n")
	}
	b.WriteString("func TestVerifReplay(t *testing.T) {\n")
	for _, p := range pre {
		b.WriteString("\t" + p + "\n")
	}
	if reqCheck != "" {
		fmt.Fprintf(&b, "\tif func() (ok bool) { defer func() { if recover() != nil { ok = false } }(); return %s }() == false {\n\t\tfmt.Println(\"REPLAY-PRECONDITION-NOT-MET\")\n\t\treturn\n\t}\n", reqCheck)
	}
	b.WriteString("\tpanicked := true\n\tdefer func() {\n\t\tif panicked {\n\t\t\tfmt.Printf(\"REPLAY-PANIC: %v\\n\", recover())\n\t\t}\n\t}()\n")
	if len(results) > 0 {
		fmt.Fprintf(&b, "\t%s := %s\n", strings.Join(results, ", "), call)
		for _, r := range results {
			fmt.Fprintf(&b, "\t_ = %s\n", r)
		}
	} else {
		fmt.Fprintf(&b, "\t%s\n", call)
	}
	b.WriteString("\tpanicked = false\n")
	if postCheck != "" {
		fmt.Fprintf(&b, "\tif !(%s) {\n\t\tfmt.Println(\"REPLAY-POST-VIOLATED\")\n\t} else {\n\t\tfmt.Println(\"REPLAY-POST-HOLDS\")\n\t}\n", postCheck)
	} else {
		b.WriteString("\tfmt.Println(\"REPLAY-NO-PANIC\")\n")
	}
	b.WriteString("}\n")
	src := b.String()
	// write and run through an overlay
	dir := filepath.Join(eng.verifDir, "out", replayTmpName())
	os.MkdirAll(dir, 0o755)
	rc.n++
	srcFile := filepath.Join(dir, fmt.Sprintf("%s_%d_replay_test.go", sanitizeFile(o.Name), rc.n))
	os.WriteFile(srcFile, []byte(src), 0o644)
	pkgDir := filepath.Dir(u.fset.Position(u.decl.Pos()).Filename)
	target := filepath.Join(pkgDir, "zz_verif_replay_test.go")
	ov, _ := json.Marshal(map[string]any{"Replace": map[string]string{target: srcFile}})
	ovFile := srcFile + ".overlay.json"
	os.WriteFile(ovFile, ov, 0o644)
	ctx, cancel := context.WithTimeout(context.Background(), 300*time.Second)
	defer cancel()
	cmd := exec.CommandContext(ctx, "bash", "-c", fmt.Sprintf("ulimit -v 8388608; cd %q && go test -overlay %q -vet=off -v -count=1 -timeout 60s -run '^TestVerifReplay$' .", pkgDir, ovFile))
	cmd.Env = append(os.Environ(), "GOFLAGS=-mod=readonly", "GOPROXY=off", "GOSUMDB=off", "GOTOOLCHAIN=local")
	out, _ := cmd.CombinedOutput()
	text := string(out)
	report := fmt.Sprintf("test source: %s\n%s\noutput:\n%s", srcFile, strings.Join(rc.notes, "\n"), firstLines(text, 30))
	switch {
	case strings.Contains(text, "REPLAY-PRECONDITION-NOT-MET"):
		return false, "the model's input does not satisfy the precondition when evaluated on the real values\n" + report
	case strings.Contains(text, "REPLAY-PANIC"):
		return o.Group != "post" || true, "the real function panics on the model's input\n" + report
	case strings.Contains(text, "REPLAY-POST-VIOLATED"):
		return true, "the real function returns a result that violates the contract clause on the model's input\n" + report
	case strings.Contains(text, "REPLAY-POST-HOLDS"), strings.Contains(text, "REPLAY-NO-PANIC"):
		return false, "the model's input does not make the real function fail (the failure depends on abstracted parts)\n" + report
	}
	return false, "replay did not run\n" + report
}

// preferSmall re-solves with bounds on slice lengths / string lengths so that the model is replayable.
func (rc *replayCtx) preferSmall() {
	u := rc.u
	c := u.c
	var syms []string
	var nested []string
	var walk func(term string, t types.Type, depth int)
	walk = func(term string, t types.Type, depth int) {
		if depth > 3 || t == nil {
			return
		}
		switch ut := t.Underlying().(type) {
		case *types.Slice:
			if depth > 0 {
				nested = append(nested, sLen(term))
			} else {
				syms = append(syms, sLen(term))
			}
			if _, isStruct := ut.Elem().Underlying().(*types.Struct); isStruct {
				blk := fmt.Sprintf("(select %s@0 %s)", u.elemHeap(ut.Elem()), sRef(term))
				for i := int64(0); i < 4; i++ {
					walk(fmt.Sprintf("(select %s %s)", blk, c.idxAdd(sOff(term), c.idxConst(i))), ut.Elem(), depth+1)
				}
			}
		case *types.Basic:
			if isStringType(t) {
				syms = append(syms, "(gstr.len "+term+")")
			}
		case *types.Struct:
			name := c.sortOf(t)
			for i := 0; i < ut.NumFields(); i++ {
				f := ut.Field(i)
				walk(fmt.Sprintf("(%s.%s %s)", name, fldName(f, i), term), f.Type(), depth+1)
			}
		case *types.Pointer:
			if _, isStruct := ut.Elem().Underlying().(*types.Struct); isStruct {
				if n, ok := ut.Elem().(*types.Named); ok && n.Obj().Pkg() == rc.pkg {
					walk(fmt.Sprintf("(select %s@0 %s)", u.ptrHeap(ut.Elem()), term), ut.Elem(), depth+1)
				}
			}
		}
	}
	collect := func(v *types.Var) {
		if v == nil {
			return
		}
		sym, ok := u.paramSyms[v.Name()]
		if !ok {
			return
		}
		walk(sym, v.Type(), 0)
	}
	collect(u.sig.Recv())
	for i := 0; i < u.sig.Params().Len(); i++ {
		collect(u.sig.Params().At(i))
	}
	if c.declared["rd.size"] {
		for i := 0; i < u.sig.Params().Len(); i++ {
			v := u.sig.Params().At(i)
			if sym, ok := u.paramSyms[v.Name()]; ok && u.c.sortOf(v.Type()) == "Int" {
				syms = append(syms, "(rd.size "+sym+")")
				if c.heapNames["HG_consumed"] != "" {
					rc.streamPos = append(rc.streamPos, and("(<= 0 (select HG_consumed@0 "+sym+"))", "(<= (select HG_consumed@0 "+sym+") (rd.size "+sym+"))"))
				}
			}
		}
	}
	rc.bound = 64
	if len(syms)+len(nested) == 0 {
		return
	}
	for _, bound := range []int64{64, 4096} {
		var extra strings.Builder
		for _, s := range syms {
			fmt.Fprintf(&extra, "(assert %s)\n", c.idxLe(s, c.idxConst(bound)))
		}
		for _, s := range nested {
			fmt.Fprintf(&extra, "(assert %s)\n", c.idxLe(s, c.idxConst(8)))
		}
		for _, s := range rc.streamPos {
			fmt.Fprintf(&extra, "(assert %s)\n", s)
		}
		q := strings.Replace(rc.query, "(check-sat)\n", extra.String()+"(check-sat)\n", 1)
		saved := rc.query
		rc.query = q
		if _, err := rc.solveValues([]string{"true"}); err == nil {
			rc.bound = bound
			return
		}
		rc.query = saved
	}
}

func uniqStrings(ss []string) []string {
	seen := map[string]bool{}
	var out []string
	for _, s := range ss {
		if !seen[s] {
			seen[s] = true
			out = append(out, s)
		}
	}
	return out
}

func (rc *replayCtx) helpersFor(post string) []string { return rc.helpers }

// ---------- contract expression -> Go ----------

type specTranslator struct {
	u       *Unit
	rename  map[string]string
	ghostOf map[string]string
	preCall []string
	helpers []string
	done    map[string]bool
	n       int
	bound   map[string]bool
	inOld   bool
	needOld bool
}

func (tr *specTranslator) translate(e ast.Expr) (string, error) {
	switch x := e.(type) {
	case *ast.ParenExpr:
		s, err := tr.translate(x.X)
		return "(" + s + ")", err
	case *ast.BasicLit:
		return x.Value, nil
	case *ast.Ident:
		if tr.bound[x.Name] {
			return x.Name, nil
		}
		if r, ok := tr.rename[x.Name]; ok {
			if tr.inOld {
				return "old_" + r, nil
			}
			return r, nil
		}
		return x.Name, nil
	case *ast.SelectorExpr:
		b, err := tr.translate(x.X)
		return b + "." + x.Sel.Name, err
	case *ast.StarExpr:
		b, err := tr.translate(x.X)
		return "(*" + b + ")", err
	case *ast.IndexExpr:
		b, err := tr.translate(x.X)
		if err != nil {
			return "", err
		}
		i, err := tr.translate(x.Index)
		return b + "[" + i + "]", err
	case *ast.SliceExpr:
		b, err := tr.translate(x.X)
		if err != nil {
			return "", err
		}
		lo, hi := "", ""
		if x.Low != nil {
			if lo, err = tr.translate(x.Low); err != nil {
				return "", err
			}
		}
		if x.High != nil {
			if hi, err = tr.translate(x.High); err != nil {
				return "", err
			}
		}
		return b + "[" + lo + ":" + hi + "]", nil
	case *ast.UnaryExpr:
		a, err := tr.translate(x.X)
		return "(" + x.Op.String() + a + ")", err
	case *ast.BinaryExpr:
		a, err := tr.translate(x.X)
		if err != nil {
			return "", err
		}
		b, err := tr.translate(x.Y)
		return "(" + a + " " + x.Op.String() + " " + b + ")", err
	case *ast.CallExpr:
		id, ok := x.Fun.(*ast.Ident)
		if !ok {
			return "", fmt.Errorf("call of non-identifier")
		}
		switch id.Name {
		case "__imp":
			a, err := tr.translate(x.Args[0])
			if err != nil {
				return "", err
			}
			b, err := tr.translate(x.Args[1])
			return "(!(" + a + ") || (" + b + "))", err
		case "__iff":
			a, err := tr.translate(x.Args[0])
			if err != nil {
				return "", err
			}
			b, err := tr.translate(x.Args[1])
			return "((" + a + ") == (" + b + "))", err
		case "__forall", "__exists":
			return tr.quant(id.Name == "__forall", x)
		case "old":
			saved := tr.inOld
			tr.inOld = true
			s, err := tr.translate(x.Args[0])
			tr.inOld = saved
			tr.needOld = true
			return s, err
		case "ite":
			var as []string
			for _, a := range x.Args {
				s, err := tr.translate(a)
				if err != nil {
					return "", err
				}
				as = append(as, s)
			}
			return "vite(" + strings.Join(as, ", ") + ")", nil
		case "fresh":
			return "true", nil
		case "len", "cap":
			a, err := tr.translate(x.Args[0])
			return id.Name + "(" + a + ")", err
		case "fsize", "fbyte":
			rid, ok := x.Args[0].(*ast.Ident)
			if !ok {
				return "", fmt.Errorf("%s on a non-parameter reader", id.Name)
			}
			g, ok := tr.ghostOf[rid.Name]
			if !ok {
				return "", fmt.Errorf("no ghost file for %s", rid.Name)
			}
			if id.Name == "fsize" {
				return "len(" + g + ")", nil
			}
			i, err := tr.translate(x.Args[1])
			return g + "[" + i + "]", err
		case "consumed":
			rid, ok := x.Args[0].(*ast.Ident)
			if !ok {
				return "", fmt.Errorf("consumed() on a non-parameter reader")
			}
			key := rid.Name + "#pos"
			if tr.inOld {
				key = rid.Name + "#pos0"
			}
			g, ok := tr.ghostOf[key]
			if !ok {
				return "", fmt.Errorf("no stream position for %s", rid.Name)
			}
			return g, nil
		case "isErr":
			a, err := tr.translate(x.Args[0])
			if err != nil {
				return "", err
			}
			b, err := tr.translate(x.Args[1])
			return "errors.Is(" + a + ", " + b + ")", err
		case "ref", "held", "unfold":
			return "", fmt.Errorf("%s() has no executable counterpart", id.Name)
		}
		if strings.HasPrefix(id.Name, "res") && len(id.Name) == 4 {
			return "", fmt.Errorf("function-parameter results are not executable")
		}
		// spec function -> Go helper
		env := &SpecEnv{u: tr.u, cs: tr.u.cs, pkg: tr.u.pkg.Types}
		if sf := env.specFunc(id.Name); sf != nil {
			if err := tr.emitSpecFunc(sf); err != nil {
				return "", err
			}
			var as []string
			for _, a := range x.Args {
				s, err := tr.translate(a)
				if err != nil {
					return "", err
				}
				as = append(as, s)
			}
			return "vspec_" + sf.Name + "(" + strings.Join(as, ", ") + ")", nil
		}
		// conversion
		if len(x.Args) == 1 {
			a, err := tr.translate(x.Args[0])
			return id.Name + "(" + a + ")", err
		}
		return "", fmt.Errorf("unknown function %s", id.Name)
	}
	return "", fmt.Errorf("unsupported expression %T", e)
}

func (tr *specTranslator) emitSpecFunc(sf *SpecFunc) error {
	if tr.done == nil {
		tr.done = map[string]bool{}
	}
	if tr.done[sf.Name] {
		return nil
	}
	tr.done[sf.Name] = true
	if sf.Body == nil {
		return fmt.Errorf("spec function %s is uninterpreted", sf.Name)
	}
	var ps []string
	sub := &specTranslator{u: tr.u, rename: map[string]string{}, ghostOf: tr.ghostOf, done: tr.done, bound: map[string]bool{}}
	for _, p := range sf.Params {
		ps = append(ps, p.Name+" "+p.Type)
		sub.bound[p.Name] = true
	}
	body, err := sub.translate(sf.Body)
	if err != nil {
		return err
	}
	tr.helpers = append(tr.helpers, sub.helpers...)
	tr.helpers = append(tr.helpers, fmt.Sprintf("func vspec_%s(%s) %s { return %s }", sf.Name, strings.Join(ps, ", "), sf.Result, body))
	return nil
}

// quant translates a bounded quantifier into an immediately-invoked loop.
func (tr *specTranslator) quant(forall bool, x *ast.CallExpr) (string, error) {
	bl := x.Args[0].(*ast.BasicLit)
	binders, _ := strconv.Unquote(bl.Value)
	ps, err := parseParams(binders)
	if err != nil || len(ps) != 1 {
		return "", fmt.Errorf("only single-variable quantifiers are executable")
	}
	v := ps[0].Name
	body := x.Args[1]
	var guard ast.Expr
	if forall {
		if c, ok := body.(*ast.CallExpr); ok {
			if id, ok := c.Fun.(*ast.Ident); ok && id.Name == "__imp" {
				guard = c.Args[0]
			}
		}
	} else {
		guard = body
	}
	if guard == nil {
		return "", fmt.Errorf("quantifier without a range guard")
	}
	lo, hi, ok := tr.bounds(v, guard)
	if !ok {
		return "", fmt.Errorf("quantifier range not recognised")
	}
	if tr.bound == nil {
		tr.bound = map[string]bool{}
	}
	tr.bound[v] = true
	b, err := tr.translate(body)
	delete(tr.bound, v)
	if err != nil {
		return "", err
	}
	if forall {
		return fmt.Sprintf("func() bool { for %s := %s(%s); %s < %s(%s); %s++ { if !(%s) { return false } }; return true }()", v, ps[0].Type, lo, v, ps[0].Type, hi, v, b), nil
	}
	return fmt.Sprintf("func() bool { for %s := %s(%s); %s < %s(%s); %s++ { if %s { return true } }; return false }()", v, ps[0].Type, lo, v, ps[0].Type, hi, v, b), nil
}

// bounds finds lo <= v and v < hi among the conjuncts of guard.
func (tr *specTranslator) bounds(v string, guard ast.Expr) (string, string, bool) {
	var conj []ast.Expr
	var flat func(e ast.Expr)
	flat = func(e ast.Expr) {
		e = ast.Unparen(e)
		if b, ok := e.(*ast.BinaryExpr); ok && b.Op == token.LAND {
			flat(b.X)
			flat(b.Y)
			return
		}
		conj = append(conj, e)
	}
	flat(guard)
	isV := func(e ast.Expr) bool {
		id, ok := ast.Unparen(e).(*ast.Ident)
		return ok && id.Name == v
	}
	lo, hi := "", ""
	for _, cj := range conj {
		b, ok := cj.(*ast.BinaryExpr)
		if !ok {
			continue
		}
		switch {
		case b.Op == token.LEQ && isV(b.Y):
			s, err := tr.translate(b.X)
			if err == nil {
				lo = s
			}
		case b.Op == token.LSS && isV(b.Y):
			s, err := tr.translate(b.X)
			if err == nil {
				lo = "(" + s + ")+1"
			}
		case b.Op == token.GEQ && isV(b.X):
			s, err := tr.translate(b.Y)
			if err == nil {
				lo = s
			}
		case b.Op == token.LSS && isV(b.X):
			s, err := tr.translate(b.Y)
			if err == nil {
				hi = s
			}
		case b.Op == token.LEQ && isV(b.X):
			s, err := tr.translate(b.Y)
			if err == nil {
				hi = "(" + s + ")+1"
			}
		}
	}
	return lo, hi, lo != "" && hi != ""
}
