package main

// Contract files: //@ lines in <pkg>/contracts_verif.go (build tag verif) and /verif/theories/*.vcl.

import (
	"fmt"
	"go/ast"
	"go/parser"
	"os"
	"regexp"
	"strconv"
	"strings"
)

type Clause struct {
	Text string
	Expr ast.Expr
	Line int
	File string
}

type LoopContract struct {
	Invariants []Clause
	Decreases  *Clause
	Uses       []Clause
	Exits      map[int][]Clause // `loop N exit#k <cond>`: reason that must hold at the k-th statement leaving the loop early
	Entry      []Clause         // `loop N entry <cond>`: checked when the loop is entered (not assumed, not an invariant)
	Steps      []Clause         // `loop N step <cond>`: must hold at the end of every iteration (before the post statement)
	Returns    []Clause         // `loop N returns <cond>`: must hold at every return statement lexically inside the loop
}

type FuncContract struct {
	Key           string
	Mode          string
	Requires      []Clause
	Ensures       []Clause
	Modifies      []Clause
	ModifiesAll   bool
	Decreases     *Clause
	Loops         map[int]*LoopContract
	Trusted       bool
	Pure          bool
	FnPure        map[string]bool
	CheckOverflow bool
	Uses          []Clause
	Asserts       map[int][]Clause // statement-ordinal keyed asserts (unused for now)
	Line          int
	File          string
	NoFrame       bool
	Ghosts        []string
	Options       map[string]bool
	FnCalls       map[string]*FuncContract // assumed contracts of function values called as <expr> (trusted boundary)
	LitEnsures    map[int][]Clause         // `lit K ensures <cond>`: postconditions of the K-th escaping function literal (obligations at its returns)
	Inline        bool                     // callers in the same package execute the body instead of using the contract
	Panics        []Clause                 // the function panics (does not return) exactly when one of these holds
}

type SpecParam struct{ Name, Type string }

type SpecFunc struct {
	Name      string
	Params    []SpecParam
	Result    string
	Body      ast.Expr // nil = uninterpreted
	BodyText  string
	Recursive bool
	Line      int
}

type Lemma struct {
	Name      string
	Params    []SpecParam
	Requires  []Clause
	Ensures   []Clause
	Decreases *Clause
	Induct    []Clause // lemma self-instances usable under the measure guard
	Uses      []Clause // other lemma instances / unfold hints
	Line      int
	File      string
}

type ContractSet struct {
	Funcs     map[string]*FuncContract
	SpecFuncs map[string]*SpecFunc
	Lemmas    map[string]*Lemma
	LemmaSeq  []string
	Scan      map[string]int // assumption scan: counts of trusted/assume/axiom lines
	Files     []string
	Finals    []FinalDecl // `final T.f ... [in Ctor,...]`: fields assigned only at construction
}

// FinalDecl: fields of struct type Type that the package assigns only in composite literals or inside the functions In.
type FinalDecl struct {
	Type   string
	Fields []string
	In     []string
	Line   int
	File   string
}

func newContractSet() *ContractSet {
	return &ContractSet{Funcs: map[string]*FuncContract{}, SpecFuncs: map[string]*SpecFunc{}, Lemmas: map[string]*Lemma{}, Scan: map[string]int{}}
}

var reFuncHdr = regexp.MustCompile(`^func\s+(\(\s*\*?\s*[A-Za-z_][A-Za-z0-9_]*(\[[^\]]*\])?\s*\)\s*)?([A-Za-z_][A-Za-z0-9_]*)\s*$`)
var reSpecFunc = regexp.MustCompile(`^spec\s+func\s+([A-Za-z_][A-Za-z0-9_]*)\s*\(([^)]*)\)\s*([A-Za-z_\[\]\*][A-Za-z0-9_\[\]\.\*]*)\s*(=\s*(.*))?$`)
var reLemma = regexp.MustCompile(`^lemma\s+([A-Za-z_][A-Za-z0-9_]*)\s*\(([^)]*)\)\s*$`)

func normKey(recv, name string) string {
	recv = strings.ReplaceAll(recv, " ", "")
	if i := strings.Index(recv, "["); i >= 0 { // drop type params of receiver
		recv = recv[:i] + ")"
	}
	if recv == "" {
		return name
	}
	return recv + "." + name
}

func parseParams(s string) ([]SpecParam, error) {
	var ps []SpecParam
	s = strings.TrimSpace(s)
	if s == "" {
		return nil, nil
	}
	var pendingNames []string
	for _, part := range strings.Split(s, ",") {
		f := strings.Fields(part)
		switch len(f) {
		case 1:
			pendingNames = append(pendingNames, f[0])
		case 2:
			for _, n := range pendingNames {
				ps = append(ps, SpecParam{n, f[1]})
			}
			pendingNames = nil
			ps = append(ps, SpecParam{f[0], f[1]})
		default:
			return nil, fmt.Errorf("bad parameter %q", part)
		}
	}
	if len(pendingNames) > 0 {
		return nil, fmt.Errorf("parameter without type in %q", s)
	}
	return ps, nil
}

func (cs *ContractSet) loadFile(path string) error {
	data, err := os.ReadFile(path)
	if err != nil {
		return err
	}
	cs.Files = append(cs.Files, path)
	lines := strings.Split(string(data), "\n")
	var cur *FuncContract
	var curLemma *Lemma
	// join continuation lines: "//@ |" continues previous
	type ln struct {
		text string
		no   int
	}
	var ls []ln
	for i, raw := range lines {
		t := strings.TrimSpace(raw)
		if !strings.HasPrefix(t, "//@") {
			continue
		}
		t = strings.TrimSpace(t[3:])
		if t == "" || strings.HasPrefix(t, "#") {
			continue
		}
		if strings.HasPrefix(t, "|") && len(ls) > 0 {
			ls[len(ls)-1].text += " " + strings.TrimSpace(t[1:])
			continue
		}
		ls = append(ls, ln{t, i + 1})
	}
	mk := func(text string, no int) (Clause, error) {
		e, err := parseSpecExpr(text)
		if err != nil {
			return Clause{}, fmt.Errorf("%s:%d: %v (in %q)", path, no, err, text)
		}
		return Clause{Text: text, Expr: e, Line: no, File: path}, nil
	}
	for _, l := range ls {
		t := l.text
		word := t
		rest := ""
		if i := strings.IndexAny(t, " \t"); i >= 0 {
			word, rest = t[:i], strings.TrimSpace(t[i+1:])
		}
		switch word {
		case "func":
			m := reFuncHdr.FindStringSubmatch(t)
			if m == nil {
				return fmt.Errorf("%s:%d: bad func header %q", path, l.no, t)
			}
			key := normKey(strings.TrimSpace(m[1]), m[3])
			if _, dup := cs.Funcs[key]; dup {
				return fmt.Errorf("%s:%d: duplicate contract for %s", path, l.no, key)
			}
			cur = &FuncContract{Key: key, Mode: "int", Loops: map[int]*LoopContract{}, FnPure: map[string]bool{}, Line: l.no, File: path}
			cs.Funcs[key] = cur
			curLemma = nil
			continue
		case "spec":
			m := reSpecFunc.FindStringSubmatch(t)
			if m == nil {
				return fmt.Errorf("%s:%d: bad spec func %q", path, l.no, t)
			}
			ps, err := parseParams(m[2])
			if err != nil {
				return fmt.Errorf("%s:%d: %v", path, l.no, err)
			}
			sf := &SpecFunc{Name: m[1], Params: ps, Result: m[3], Line: l.no}
			if m[5] != "" {
				e, err := parseSpecExpr(m[5])
				if err != nil {
					return fmt.Errorf("%s:%d: %v", path, l.no, err)
				}
				sf.Body = e
				sf.BodyText = m[5]
				sf.Recursive = callsName(e, sf.Name)
			}
			cs.SpecFuncs[sf.Name] = sf
			cur, curLemma = nil, nil
			continue
		case "final":
			// final T.f1 T.f2 ... [in F1,F2]
			parts := strings.Fields(rest)
			fd := map[string]*FinalDecl{}
			var in []string
			for i := 0; i < len(parts); i++ {
				if parts[i] == "in" {
					for _, x := range parts[i+1:] {
						for _, y := range strings.Split(x, ",") {
							if y = strings.TrimSpace(y); y != "" {
								in = append(in, y)
							}
						}
					}
					break
				}
				tf := strings.SplitN(strings.TrimSuffix(parts[i], ","), ".", 2)
				if len(tf) != 2 {
					return fmt.Errorf("%s:%d: bad final directive %q", path, l.no, parts[i])
				}
				d := fd[tf[0]]
				if d == nil {
					d = &FinalDecl{Type: tf[0], Line: l.no, File: path}
					fd[tf[0]] = d
				}
				d.Fields = append(d.Fields, tf[1])
			}
			for _, d := range fd {
				d.In = in
				cs.Finals = append(cs.Finals, *d)
			}
			cur, curLemma = nil, nil
			continue
		case "lemma":
			m := reLemma.FindStringSubmatch(t)
			if m == nil {
				return fmt.Errorf("%s:%d: bad lemma header %q", path, l.no, t)
			}
			ps, err := parseParams(m[2])
			if err != nil {
				return fmt.Errorf("%s:%d: %v", path, l.no, err)
			}
			curLemma = &Lemma{Name: m[1], Params: ps, Line: l.no, File: path}
			cs.Lemmas[m[1]] = curLemma
			cs.LemmaSeq = append(cs.LemmaSeq, m[1])
			cur = nil
			continue
		}
		if curLemma != nil {
			switch word {
			case "requires", "ensures", "decreases", "induct", "use":
				cl, err := mk(rest, l.no)
				if err != nil {
					return err
				}
				switch word {
				case "requires":
					curLemma.Requires = append(curLemma.Requires, cl)
				case "ensures":
					curLemma.Ensures = append(curLemma.Ensures, cl)
				case "decreases":
					curLemma.Decreases = &cl
				case "induct":
					curLemma.Induct = append(curLemma.Induct, cl)
				case "use":
					curLemma.Uses = append(curLemma.Uses, cl)
				}
			default:
				return fmt.Errorf("%s:%d: unknown lemma directive %q", path, l.no, word)
			}
			continue
		}
		if cur == nil {
			return fmt.Errorf("%s:%d: directive %q outside a func/lemma block", path, l.no, word)
		}
		switch word {
		case "mode":
			if rest != "bv" && rest != "int" {
				return fmt.Errorf("%s:%d: bad mode %q", path, l.no, rest)
			}
			cur.Mode = rest
		case "requires", "ensures", "decreases", "use", "panics":
			cl, err := mk(rest, l.no)
			if err != nil {
				return err
			}
			switch word {
			case "panics":
				cur.Panics = append(cur.Panics, cl)
			case "requires":
				cur.Requires = append(cur.Requires, cl)
			case "ensures":
				cur.Ensures = append(cur.Ensures, cl)
			case "decreases":
				cur.Decreases = &cl
			case "use":
				cur.Uses = append(cur.Uses, cl)
			}
		case "modifies":
			if rest == "all" {
				cur.ModifiesAll = true
				break
			}
			for _, part := range splitTopLevel(rest, ',') {
				cl, err := mk(strings.TrimSpace(part), l.no)
				if err != nil {
					return err
				}
				cur.Modifies = append(cur.Modifies, cl)
			}
		case "option":
			if cur.Options == nil {
				cur.Options = map[string]bool{}
			}
			cur.Options[rest] = true
		case "trusted":
			cur.Trusted = true
			cs.Scan["trusted"]++
		case "assume":
			cs.Scan["assume"]++
			return fmt.Errorf("%s:%d: 'assume' is not allowed in contracts", path, l.no)
		case "pure":
			cur.Pure = true
		case "inline":
			cur.Inline = true
		case "lit":
			// lit <K> ensures <clause>: postcondition of the K-th escaping function literal of this function
			f := strings.SplitN(rest, " ", 3)
			if len(f) < 3 || f[1] != "ensures" {
				return fmt.Errorf("%s:%d: bad lit directive (lit <K> ensures <cond>)", path, l.no)
			}
			k, err := strconv.Atoi(f[0])
			if err != nil {
				return fmt.Errorf("%s:%d: bad literal ordinal", path, l.no)
			}
			cl, err := mk(strings.TrimSpace(f[2]), l.no)
			if err != nil {
				return err
			}
			if cur.LitEnsures == nil {
				cur.LitEnsures = map[int][]Clause{}
			}
			cur.LitEnsures[k] = append(cur.LitEnsures[k], cl)
		case "fncall":
			// fncall <callee-expr> (requires|ensures|modifies) <clause>
			f := strings.SplitN(rest, " ", 3)
			if len(f) < 3 {
				return fmt.Errorf("%s:%d: bad fncall directive", path, l.no)
			}
			if cur.FnCalls == nil {
				cur.FnCalls = map[string]*FuncContract{}
			}
			key := strings.Join(strings.Fields(f[0]), "")
			sub := cur.FnCalls[key]
			if sub == nil {
				sub = &FuncContract{Key: key, Mode: cur.Mode, Loops: map[int]*LoopContract{}, FnPure: map[string]bool{}}
				cur.FnCalls[key] = sub
				cs.Scan["fncall (assumed contract of a function value)"]++
			}
			switch f[1] {
			case "requires", "ensures":
				cl, err := mk(strings.TrimSpace(f[2]), l.no)
				if err != nil {
					return err
				}
				if f[1] == "requires" {
					sub.Requires = append(sub.Requires, cl)
				} else {
					sub.Ensures = append(sub.Ensures, cl)
				}
			case "modifies":
				for _, part := range splitTopLevel(f[2], ',') {
					cl, err := mk(strings.TrimSpace(part), l.no)
					if err != nil {
						return err
					}
					sub.Modifies = append(sub.Modifies, cl)
				}
			default:
				return fmt.Errorf("%s:%d: bad fncall directive %q", path, l.no, f[1])
			}
		case "noframe":
			cur.NoFrame = true
		case "fnpure":
			for _, f := range strings.Fields(strings.ReplaceAll(rest, ",", " ")) {
				cur.FnPure[f] = true
			}
		case "check":
			if rest == "overflow" {
				cur.CheckOverflow = true
			}
		case "loop":
			f := strings.SplitN(rest, " ", 3)
			if len(f) < 3 {
				return fmt.Errorf("%s:%d: bad loop directive", path, l.no)
			}
			n, err := strconv.Atoi(f[0])
			if err != nil {
				return fmt.Errorf("%s:%d: bad loop ordinal", path, l.no)
			}
			lc := cur.Loops[n]
			if lc == nil {
				lc = &LoopContract{}
				cur.Loops[n] = lc
			}
			cl, err := mk(strings.TrimSpace(f[2]), l.no)
			if err != nil {
				return err
			}
			if strings.HasPrefix(f[1], "exit#") {
				k, err := strconv.Atoi(strings.TrimPrefix(f[1], "exit#"))
				if err != nil {
					return fmt.Errorf("%s:%d: bad loop exit ordinal %q", path, l.no, f[1])
				}
				if lc.Exits == nil {
					lc.Exits = map[int][]Clause{}
				}
				lc.Exits[k] = append(lc.Exits[k], cl)
				continue
			}
			switch f[1] {
			case "invariant":
				lc.Invariants = append(lc.Invariants, cl)
			case "decreases":
				lc.Decreases = &cl
			case "use":
				lc.Uses = append(lc.Uses, cl)
			case "returns":
				lc.Returns = append(lc.Returns, cl)
			case "step":
				lc.Steps = append(lc.Steps, cl)
			case "entry":
				lc.Entry = append(lc.Entry, cl)
			default:
				return fmt.Errorf("%s:%d: bad loop directive %q", path, l.no, f[1])
			}
		default:
			return fmt.Errorf("%s:%d: unknown directive %q", path, l.no, word)
		}
	}
	return nil
}

func callsName(e ast.Expr, name string) bool {
	found := false
	ast.Inspect(e, func(n ast.Node) bool {
		if c, ok := n.(*ast.CallExpr); ok {
			if id, ok := c.Fun.(*ast.Ident); ok && id.Name == name {
				found = true
			}
		}
		return true
	})
	return found
}

// splitTopLevel splits s at sep occurrences outside parentheses/brackets.
func splitTopLevel(s string, sep byte) []string {
	var parts []string
	d := 0
	start := 0
	for i := 0; i < len(s); i++ {
		switch s[i] {
		case '(', '[', '{':
			d++
		case ')', ']', '}':
			d--
		default:
			if s[i] == sep && d == 0 {
				parts = append(parts, s[start:i])
				start = i + 1
			}
		}
	}
	return append(parts, s[start:])
}

// parseSpecExpr turns contract syntax (Go expressions + ==>, <==>, forall/exists x T :: e) into a Go AST
// in which the extensions appear as calls of __imp, __iff, __forall, __exists.
func parseSpecExpr(s string) (ast.Expr, error) {
	g, err := specToGo(s)
	if err != nil {
		return nil, err
	}
	e, err := parser.ParseExpr(g)
	if err != nil {
		return nil, fmt.Errorf("%v [converted: %s]", err, g)
	}
	return e, nil
}

func specToGo(s string) (string, error) {
	s = strings.TrimSpace(s)
	// 1. convert parenthesised groups recursively (innermost handled by recursion)
	var b strings.Builder
	i := 0
	for i < len(s) {
		ch := s[i]
		if ch == '"' { // string literal
			j := i + 1
			for j < len(s) && s[j] != '"' {
				if s[j] == '\\' {
					j++
				}
				j++
			}
			if j >= len(s) {
				return "", fmt.Errorf("unterminated string")
			}
			b.WriteString(s[i : j+1])
			i = j + 1
			continue
		}
		if ch == '(' {
			d := 0
			j := i
			for ; j < len(s); j++ {
				if s[j] == '(' {
					d++
				} else if s[j] == ')' {
					d--
					if d == 0 {
						break
					}
				}
			}
			if j >= len(s) {
				return "", fmt.Errorf("unbalanced parentheses")
			}
			inner := s[i+1 : j]
			// a group may be a call argument list: convert each top-level comma part
			parts := splitTopLevel(inner, ',')
			if ti := strings.TrimSpace(inner); strings.HasPrefix(ti, "forall ") || strings.HasPrefix(ti, "exists ") {
				parts = []string{inner}
			}
			for k, p := range parts {
				if strings.TrimSpace(p) == "" {
					continue
				}
				c, err := specToGo(p)
				if err != nil {
					return "", err
				}
				parts[k] = c
			}
			b.WriteByte('(')
			b.WriteString(strings.Join(parts, ", "))
			b.WriteByte(')')
			i = j + 1
			continue
		}
		b.WriteByte(ch)
		i++
	}
	t := strings.TrimSpace(b.String())
	// 2. leading quantifier
	for _, q := range []string{"forall", "exists"} {
		if strings.HasPrefix(t, q+" ") {
			k := topIndex(t, "::")
			if k < 0 {
				return "", fmt.Errorf("quantifier without '::'")
			}
			binders := strings.TrimSpace(t[len(q):k])
			body, err := specToGo2(t[k+2:])
			if err != nil {
				return "", err
			}
			return fmt.Sprintf("__%s(%s, %s)", q, strconv.Quote(binders), body), nil
		}
	}
	return specToGo2(t)
}

// specToGo2 handles <==> and ==> at top level of an already group-converted string.
func specToGo2(t string) (string, error) {
	t = strings.TrimSpace(t)
	for _, q := range []string{"forall", "exists"} {
		if strings.HasPrefix(t, q+" ") {
			return specToGo(t)
		}
	}
	if k := topIndex(t, "<==>"); k >= 0 {
		a, err := specToGo2(t[:k])
		if err != nil {
			return "", err
		}
		c, err := specToGo2(t[k+4:])
		if err != nil {
			return "", err
		}
		return fmt.Sprintf("__iff(%s, %s)", a, c), nil
	}
	if k := topIndex(t, "==>"); k >= 0 {
		a, err := specToGo2(t[:k])
		if err != nil {
			return "", err
		}
		c, err := specToGo2(t[k+3:])
		if err != nil {
			return "", err
		}
		return fmt.Sprintf("__imp(%s, %s)", a, c), nil
	}
	// a quantifier after && / || extends to the end of the expression
	for _, q := range []string{"forall ", "exists "} {
		if k := topIndex(t, q); k > 0 && (t[k-1] == ' ' || t[k-1] == '(') {
			rest, err := specToGo(t[k:])
			if err != nil {
				return "", err
			}
			return t[:k] + rest, nil
		}
	}
	return t, nil
}

func topIndex(s, tok string) int {
	d := 0
	for i := 0; i+len(tok) <= len(s); i++ {
		switch s[i] {
		case '(', '[', '{':
			d++
			continue
		case ')', ']', '}':
			d--
			continue
		case '"':
			j := i + 1
			for j < len(s) && s[j] != '"' {
				if s[j] == '\\' {
					j++
				}
				j++
			}
			i = j
			continue
		}
		if d == 0 && strings.HasPrefix(s[i:], tok) {
			if tok == "==>" && i > 0 && s[i-1] == '<' {
				continue
			}
			return i
		}
	}
	return -1
}
