package main

// C08 replay (ct-c08b/nil-tx-node): getBlock (JSON-RPC and gRPC) on a block one of whose transactions cannot be fetched.
//
// Block 1000 has three transactions; the Entry's link to the second one points at a node that is not in the CAR / not in the
// cid-to-offset-and-size index (a lost or corrupt section, a partial CAR, an index built from another CAR: the same happens on
// any read error of GetTransactionByCid, e.g. a remote CAR whose HTTP range request fails). The goroutine that fetches it logs
// the error and returns nil ("failed to decode Transaction"), leaving a nil *ipldbindcode.Transaction in allTransactionNodes;
// the loop over mergeTxNodeSlices then calls transactionNode.GetPositionIndex() (value receiver) on the nil pointer.
// Property C08: the request must get a response or an error, the server must keep serving.
//
//   cd /repo && go test -vet=off -count=1 -overlay /verif/replay/manual/ct-c08b/nil-tx-node/overlay.json -run 'TestReplayC08bNilTxNode' -v .

import (
	"strings"
	"testing"
)

func c08bNilTxFixture(t *testing.T) *c08bFixture {
	var txs []c08bTx
	for i := 0; i < 3; i++ {
		txs = append(txs, c08bTx{raw: c08bTxBytes(t, c08bPlainTx(i)), meta: c08bMeta(t, c08bPlainMeta()), dangling: i == 1})
	}
	return c08bBuild(t, []c08bBlock{
		{slot: 999, parent: 0, txs: []c08bTx{{raw: c08bTxBytes(t, c08bPlainTx(10)), meta: c08bMeta(t, c08bPlainMeta())}}},
		{slot: 1000, parent: 999, txs: txs},
	})
}

func TestReplayC08bNilTxNodeJSONRPC(t *testing.T) {
	fx := c08bNilTxFixture(t)
	// sanity: the intact block is served
	if o := fx.jsonrpc("getBlock", `[999]`); o.panicked || o.rpcErr != nil || !strings.Contains(o.body, `"result"`) {
		t.Fatalf("fixture: intact block 999 not served: %v", o)
	}
	o := fx.jsonrpc("getBlock", `[1000]`)
	if o.panicked {
		t.Fatalf("REPLAY-CONFIRMED C08/nil-tx-node (JSON-RPC getBlock [1000]): handler panicked: %s\n  at %s", o.panicMsg, o.site())
	}
	if o.rpcErr == nil && !strings.Contains(o.body, `"result"`) {
		t.Fatalf("no response and no error: %v", o)
	}
	t.Logf("getBlock [1000] answered without crashing: %v", o)
}

func TestReplayC08bNilTxNodeGRPC(t *testing.T) {
	fx := c08bNilTxFixture(t)
	if o, resp := fx.grpcGetBlock(999); o.panicked || o.err != nil || resp == nil {
		t.Fatalf("fixture: intact block 999 not served: %v", o)
	}
	o, resp := fx.grpcGetBlock(1000)
	if o.panicked {
		t.Fatalf("REPLAY-CONFIRMED C08/nil-tx-node (gRPC GetBlock slot 1000): handler panicked: %s\n  at %s", o.panicMsg, o.site())
	}
	if o.err == nil && resp == nil {
		t.Fatalf("no response and no error")
	}
	t.Logf("GetBlock(1000) answered without crashing: err=%v", o.err)
}
