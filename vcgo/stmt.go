package main

// Statement execution and the per-function driver.

import (
	"fmt"
	"go/ast"
	"go/token"
	"go/types"
	"os"
	"sort"
	"strings"
)

type loopCtx struct {
	exitSites map[*ast.BranchStmt]int // break/continue statements that leave this loop early, numbered in source order
	ord       int                     // loop ordinal (-1: switch/select pseudo loops)
	lc        *LoopContract           // contract of the loop (Returns clauses are checked at returns inside it)
	label     string
	breaks    []*State
	continues []*State
	isSwitch  bool
}

type unsupportedPanic struct{ msg string }

func (u *Unit) giveUp(pos token.Pos, format string, a ...any) {
	p := u.fset.Position(pos)
	panic(unsupportedPanic{fmt.Sprintf("%s:%d: %s", shortPath(p.Filename), p.Line, fmt.Sprintf(format, a...))})
}

// ---------- pre-scan ----------

// classifyLits finds function literals that can be executed inline where they are called: immediately invoked literals
// (`func(){...}()`, not under go/defer) and literals bound once to a local variable that is only ever called.
func (u *Unit) classifyLits(body ast.Node) {
	u.inlineLit = map[*ast.FuncLit]bool{}
	u.litOfVar = map[*types.Var]*ast.FuncLit{}
	hasDefer := func(fl *ast.FuncLit) bool {
		found := false
		ast.Inspect(fl.Body, func(n ast.Node) bool {
			switch n.(type) {
			case *ast.DeferStmt:
				found = true
			case *ast.FuncLit:
				return false
			}
			return true
		})
		return found
	}
	var stack []ast.Node
	candidates := map[*types.Var]*ast.FuncLit{}
	bad := map[*types.Var]bool{}
	ast.Inspect(body, func(n ast.Node) bool {
		if n == nil {
			stack = stack[:len(stack)-1]
			return true
		}
		var parent, grand ast.Node
		if len(stack) > 0 {
			parent = stack[len(stack)-1]
		}
		if len(stack) > 1 {
			grand = stack[len(stack)-2]
		}
		switch x := n.(type) {
		case *ast.FuncLit:
			if call, ok := parent.(*ast.CallExpr); ok && call.Fun == x {
				_, isGo := grand.(*ast.GoStmt)
				_, isDefer := grand.(*ast.DeferStmt)
				if !isGo && !isDefer && !hasDefer(x) {
					u.inlineLit[x] = true
				}
			}
			if as, ok := parent.(*ast.AssignStmt); ok && as.Tok == token.DEFINE && len(as.Lhs) == 1 && len(as.Rhs) == 1 && as.Rhs[0] == x {
				if id, ok := as.Lhs[0].(*ast.Ident); ok {
					if v, ok := u.info.Defs[id].(*types.Var); ok && !hasDefer(x) {
						candidates[v] = x
					}
				}
			}
		case *ast.Ident:
			if v, ok := u.info.Uses[x].(*types.Var); ok {
				call, isCall := parent.(*ast.CallExpr)
				okUse := isCall && call.Fun == x
				if okUse {
					if _, isGo := grand.(*ast.GoStmt); isGo {
						okUse = false
					}
					if _, isDefer := grand.(*ast.DeferStmt); isDefer {
						okUse = false
					}
				}
				if !okUse {
					bad[v] = true
				}
			}
		case *ast.AssignStmt:
			if x.Tok != token.DEFINE {
				for _, l := range x.Lhs {
					if id, ok := l.(*ast.Ident); ok {
						if v, ok := u.info.Uses[id].(*types.Var); ok {
							bad[v] = true
						}
					}
				}
			}
		}
		stack = append(stack, n)
		return true
	})
	for v, fl := range candidates {
		if !bad[v] {
			// no self-reference
			self := false
			ast.Inspect(fl.Body, func(n ast.Node) bool {
				if id, ok := n.(*ast.Ident); ok && u.info.Uses[id] == v {
					self = true
				}
				return true
			})
			if !self {
				u.inlineLit[fl] = true
				u.litOfVar[v] = fl
			}
		}
	}
}

// inlineTarget: the literal a call executes inline, if any.
func (u *Unit) inlineTarget(call *ast.CallExpr) *ast.FuncLit {
	switch f := ast.Unparen(call.Fun).(type) {
	case *ast.FuncLit:
		if u.inlineLit[f] {
			return f
		}
	case *ast.Ident:
		if v, ok := u.info.Uses[f].(*types.Var); ok {
			return u.litOfVar[v]
		}
	}
	return nil
}

func (u *Unit) prescan(body ast.Node) {
	u.boxed = map[*types.Var]bool{}
	u.volatile = map[*types.Var]bool{}
	u.classifyLits(body)
	var inLit int
	var litStack []*ast.FuncLit
	local := func(id *ast.Ident) *types.Var {
		v, ok := u.info.Uses[id].(*types.Var)
		if !ok {
			v, ok = u.info.Defs[id].(*types.Var)
		}
		if !ok || v == nil || v.IsField() {
			return nil
		}
		if v.Pkg() != nil && v.Parent() == v.Pkg().Scope() {
			return nil
		}
		return v
	}
	markAssigned := func(e ast.Expr) {
		if inLit == 0 {
			return
		}
		if id, ok := ast.Unparen(e).(*ast.Ident); ok {
			if v := local(id); v != nil {
				// declared outside the literal?
				lit := litStack[len(litStack)-1]
				if v.Pos() < lit.Pos() || v.Pos() > lit.End() {
					// assigned by an escaping closure: under the data-race freedom assumption the enclosing function can
					// observe such a write only after a call or a synchronisation operation, so the variable is havoced
					// at those points (havocClosureVars) instead of being unknown at every read
					if u.closureWritten == nil {
						u.closureWritten = map[*types.Var]bool{}
					}
					u.closureWritten[v] = true
				}
			}
		}
	}
	var walk func(n ast.Node) bool
	walk = func(n ast.Node) bool {
		switch n := n.(type) {
		case *ast.FuncLit:
			if u.inlineLit[n] {
				return true // executed inline: its assignments are ordinary assignments
			}
			inLit++
			litStack = append(litStack, n)
			ast.Inspect(n.Body, walk)
			litStack = litStack[:len(litStack)-1]
			inLit--
			return false
		case *ast.UnaryExpr:
			if n.Op == token.AND {
				if id, ok := ast.Unparen(n.X).(*ast.Ident); ok {
					if v := local(id); v != nil {
						u.boxed[v] = true
						if inLit > 0 {
							lit := litStack[len(litStack)-1]
							if v.Pos() < lit.Pos() || v.Pos() > lit.End() {
								u.volatile[v] = true
							}
						}
					}
				}
			}
		case *ast.SliceExpr:
			if id, ok := ast.Unparen(n.X).(*ast.Ident); ok {
				if v := local(id); v != nil {
					if _, isArr := v.Type().Underlying().(*types.Array); isArr {
						u.boxed[v] = true
					}
				}
			}
		case *ast.CallExpr:
			// implicit &x for pointer-receiver method calls on addressable locals
			if se, ok := ast.Unparen(n.Fun).(*ast.SelectorExpr); ok {
				if sel, ok := u.info.Selections[se]; ok && sel.Kind() == types.MethodVal {
					if id, ok := ast.Unparen(se.X).(*ast.Ident); ok {
						if v := local(id); v != nil {
							f := sel.Obj().(*types.Func)
							sig := f.Type().(*types.Signature)
							if _, wantPtr := sig.Recv().Type().Underlying().(*types.Pointer); wantPtr {
								if _, havePtr := v.Type().Underlying().(*types.Pointer); !havePtr && !types.IsInterface(v.Type()) && len(sel.Index()) == 1 {
									u.boxed[v] = true
								}
							}
						}
					}
				}
			}
		case *ast.AssignStmt:
			for _, l := range n.Lhs {
				markAssigned(l)
			}
		case *ast.IncDecStmt:
			markAssigned(n.X)
		case *ast.RangeStmt:
			if n.Tok == token.ASSIGN {
				if n.Key != nil {
					markAssigned(n.Key)
				}
				if n.Value != nil {
					markAssigned(n.Value)
				}
			}
		}
		return true
	}
	ast.Inspect(body, walk)
	// a variable that is both boxed and captured-by-reference in a closure is volatile
}

// assignedVars collects local variables assigned anywhere inside n (for loop havoc).
func (u *Unit) assignedVars(n ast.Node) []*types.Var {
	seen := map[*types.Var]bool{}
	var out []*types.Var
	add := func(e ast.Expr) {
		for {
			switch x := ast.Unparen(e).(type) {
			case *ast.Ident:
				v, ok := u.info.Uses[x].(*types.Var)
				if !ok {
					v, ok = u.info.Defs[x].(*types.Var)
				}
				if ok && v != nil && !v.IsField() && !seen[v] {
					seen[v] = true
					out = append(out, v)
				}
				return
			case *ast.SelectorExpr:
				// assignment to a field of a struct-valued local modifies the local
				if _, isSel := u.info.Selections[x]; !isSel {
					return
				}
				if t := u.typeOf(x.X); t != nil {
					if _, isPtr := t.Underlying().(*types.Pointer); isPtr {
						return
					}
				}
				e = x.X
			case *ast.IndexExpr:
				if t := u.typeOf(x.X); t != nil {
					if _, isArr := t.Underlying().(*types.Array); isArr {
						e = x.X
						continue
					}
				}
				return
			default:
				return
			}
		}
	}
	var visit func(n ast.Node) bool
	seenLit := map[*ast.FuncLit]bool{}
	visit = func(n ast.Node) bool {
		switch n := n.(type) {
		case *ast.FuncLit:
			return u.inlineLit[n]
		case *ast.AssignStmt:
			for _, l := range n.Lhs {
				add(l)
			}
		case *ast.IncDecStmt:
			add(n.X)
		case *ast.RangeStmt:
			if n.Key != nil {
				add(n.Key)
			}
			if n.Value != nil {
				add(n.Value)
			}
		case *ast.CallExpr:
			if fl := u.inlineTarget(n); fl != nil && !seenLit[fl] {
				seenLit[fl] = true
				ast.Inspect(fl.Body, visit)
			}
			// pointer-receiver calls on non-boxed struct values (fields, elements) are copy-in/copy-out: they modify the container
			if se, ok := ast.Unparen(n.Fun).(*ast.SelectorExpr); ok {
				if sel, ok := u.info.Selections[se]; ok && sel.Kind() == types.MethodVal {
					if f, ok := sel.Obj().(*types.Func); ok {
						if sig := f.Type().(*types.Signature); sig.Recv() != nil {
							_, wantPtr := sig.Recv().Type().Underlying().(*types.Pointer)
							rt := u.typeOf(se.X)
							if rt != nil {
								_, havePtr := rt.Underlying().(*types.Pointer)
								if wantPtr && !havePtr && !types.IsInterface(rt) {
									add(se.X)
								}
							}
						}
					}
				}
			}
			for _, a := range n.Args {
				if ue, ok := ast.Unparen(a).(*ast.UnaryExpr); ok && ue.Op == token.AND {
					add(ue.X)
				}
			}
		}
		return true
	}
	ast.Inspect(n, visit)
	return out
}

// writesHeap reports whether n may write any heap (coarse: any call other than known-pure ones, or a heap store).
func (u *Unit) loopHeapEffects(n ast.Node) (all bool, some map[string]bool) {
	some = map[string]bool{}
	seenLit := map[*ast.FuncLit]bool{}
	seenDecl := map[*ast.FuncDecl]bool{}
	var visit func(n ast.Node) bool
	visit = func(n ast.Node) bool {
		switch n := n.(type) {
		case *ast.FuncLit:
			return u.inlineLit[n]
		case *ast.GoStmt, *ast.DeferStmt:
			all = true
		case *ast.SendStmt, *ast.SelectStmt:
			// channel operations write no heap themselves; they are synchronisation points at which the writes of
			// goroutines spawned by this function become visible (resync)
			if u.hasGoStmt() {
				all = true
			}
		case *ast.UnaryExpr:
			if n.Op == token.ARROW && u.hasGoStmt() {
				all = true
			}
		case *ast.AssignStmt:
			for _, l := range n.Lhs {
				u.lhsHeaps(l, some, &all)
			}
		case *ast.IncDecStmt:
			u.lhsHeaps(n.X, some, &all)
		case *ast.CallExpr:
			if tv, ok := u.info.Types[n.Fun]; ok && tv.IsType() {
				return true
			}
			if len(u.counted) > 0 {
				if _, ok := u.counted[strings.Join(strings.Fields(u.exprText(n.Fun)), "")]; ok {
					some[u.ghostHeap("called")] = true
				}
			}
			if id, ok := ast.Unparen(n.Fun).(*ast.Ident); ok {
				if b, ok := u.info.Uses[id].(*types.Builtin); ok {
					switch b.Name() {
					case "append", "copy":
						if t := u.typeOf(n.Args[0]); t != nil {
							if sl, ok := t.Underlying().(*types.Slice); ok {
								some[u.elemHeap(sl.Elem())] = true
							}
						}
					case "clear":
						if t := u.typeOf(n.Args[0]); t != nil {
							if sl, ok := t.Underlying().(*types.Slice); ok {
								some[u.elemHeap(sl.Elem())] = true
								return true
							}
						}
						all = true
					case "delete":
						all = true
					}
					return true
				}
			}
			if sub, _ := u.fncallFor(n); sub != nil {
				// assumed contract of this call site: only its modifies list is written
				for _, m := range sub.Modifies {
					if name, _, ok := ghostModifies(m); ok {
						some[u.ghostHeap(name)] = true
						continue
					}
					all = true
				}
				return true
			}
			callee, _ := u.staticCallee(n)
			if callee == nil {
				if fl := u.inlineTarget(n); fl != nil {
					if !seenLit[fl] {
						seenLit[fl] = true
						ast.Inspect(fl.Body, visit)
					}
					return true
				}
				if id, ok := ast.Unparen(n.Fun).(*ast.Ident); ok && u.ct != nil && u.ct.FnPure[id.Name] {
					return true
				}
				all = true
				return true
			}
			if ct, _ := u.eng.contractFor(callee); ct != nil {
				if ct.ModifiesAll {
					all = true
				}
				if !declaresGhostFrame(ct) {
					some[u.ghostHeap("consumed")] = true
					some[u.ghostHeap("written")] = true
				}
				if len(ct.Modifies) > 0 {
					sig := callee.Type().(*types.Signature)
					for _, m := range ct.Modifies {
						if !u.modifiesHeap(callee, sig, m, some) {
							all = true
						}
					}
				}
				// pointer-receiver on local struct: copy-in/out touches the cell heap
				if sig := callee.Type().(*types.Signature); sig.Recv() != nil {
					if pt, ok := sig.Recv().Type().Underlying().(*types.Pointer); ok {
						some[u.cellHeapName(pt.Elem())] = true
					}
				}
				return true
			}
			if callee.Pkg() == u.pkg.Types && u.eng.isNewFunc(u.pkgName, calleeKey(callee.Origin())) {
				// a helper added after the contracts were written is executed inline at the call: its effects are
				// those of its body
				if fd, _ := u.eng.findFunc(u.pkg, calleeKey(callee.Origin())); fd != nil && fd.Body != nil && !seenDecl[fd] && len(seenDecl) < 16 {
					seenDecl[fd] = true
					ast.Inspect(fd.Body, visit)
					return true
				}
			}
			if eff, known := libEffects(callee); known {
				for _, h := range eff {
					switch h {
					case "bytes":
						some[u.elemHeap(types.Typ[types.Uint8])] = true
					case "written", "consumed", "ctxdone":
						some[u.ghostHeap(h)] = true
					case "all":
						all = true
					}
				}
				return true
			}
			if u.eng.isPureExternal(callee) || readOnlyExternal[callee.Name()] || readOnlyExternalFull[callee.FullName()] {
				return true
			}
			if callee.Pkg() != nil && !u.eng.isRepoPkg(callee.Pkg().Path()) {
				// same effect summary as externalCall: writes only through slice / pointer / map arguments
				var argTypes []types.Type
				if se, ok := ast.Unparen(n.Fun).(*ast.SelectorExpr); ok {
					if _, isSel := u.info.Selections[se]; isSel {
						argTypes = append(argTypes, u.typeOf(se.X))
					}
				}
				for _, a := range n.Args {
					argTypes = append(argTypes, u.typeOf(a))
				}
				for _, t := range argTypes {
					if t == nil {
						all = true
						continue
					}
					switch ut := t.Underlying().(type) {
					case *types.Slice:
						some[u.elemHeap(ut.Elem())] = true
					case *types.Pointer:
						if nm, ok := ut.Elem().(*types.Named); ok && nm.Obj().Pkg() != nil && !u.eng.isRepoPkg(nm.Obj().Pkg().Path()) {
							continue
						}
						some[u.cellHeapName(ut.Elem())] = true
					case *types.Signature:
						all = true
					case *types.Interface:
						if !isErrorType(t) && !isEmptyInterface(t) && !u.eng.externalIface(t) {
							all = true
						}
					case *types.Map:
						hp, hv := u.mapHeaps(ut)
						some[hp], some[hv] = true, true
					}
				}
				return true
			}
			all = true
		}
		return true
	}
	ast.Inspect(n, visit)
	return
}

// exitSitesOf: the break / continue statements inside the loop `node` (a for/range statement or its body; labelled `label`)
// that leave THIS loop before its condition ends it: `break` of the loop itself, and any break/continue that targets an
// enclosing statement. Numbered in source order. Function literals are not entered.
func exitSitesOf(node ast.Node, label string) map[*ast.BranchStmt]int {
	var body *ast.BlockStmt
	switch x := node.(type) {
	case *ast.ForStmt:
		body = x.Body
	case *ast.RangeStmt:
		body = x.Body
	case *ast.BlockStmt:
		body = x
	}
	out := map[*ast.BranchStmt]int{}
	if body == nil {
		return out
	}
	type frame struct {
		label     string
		isLoop    bool // for / range (continue target)
		breakable bool
	}
	var stack []frame // nested breakable statements INSIDE the loop body
	var walk func(n ast.Node, lbl string)
	walkList := func(l []ast.Stmt) {
		for _, s := range l {
			walk(s, "")
		}
	}
	walk = func(n ast.Node, lbl string) {
		switch x := n.(type) {
		case nil:
			return
		case *ast.FuncLit:
			return
		case *ast.LabeledStmt:
			walk(x.Stmt, x.Label.Name)
		case *ast.ForStmt:
			stack = append(stack, frame{lbl, true, true})
			walkList(x.Body.List)
			stack = stack[:len(stack)-1]
		case *ast.RangeStmt:
			stack = append(stack, frame{lbl, true, true})
			walkList(x.Body.List)
			stack = stack[:len(stack)-1]
		case *ast.SwitchStmt:
			stack = append(stack, frame{lbl, false, true})
			walkList(x.Body.List)
			stack = stack[:len(stack)-1]
		case *ast.TypeSwitchStmt:
			stack = append(stack, frame{lbl, false, true})
			walkList(x.Body.List)
			stack = stack[:len(stack)-1]
		case *ast.SelectStmt:
			stack = append(stack, frame{lbl, false, true})
			walkList(x.Body.List)
			stack = stack[:len(stack)-1]
		case *ast.CaseClause:
			walkList(x.Body)
		case *ast.CommClause:
			walkList(x.Body)
		case *ast.BlockStmt:
			walkList(x.List)
		case *ast.IfStmt:
			walk(x.Body, "")
			walk(x.Else, "")
		case *ast.BranchStmt:
			if x.Tok != token.BREAK && x.Tok != token.CONTINUE {
				return
			}
			exits := false
			if x.Label != nil {
				nested := false
				for _, f := range stack {
					if f.label == x.Label.Name {
						nested = true
					}
				}
				if !nested {
					// the loop itself (break only) or an enclosing statement
					exits = !(x.Label.Name == label && x.Tok == token.CONTINUE)
				}
			} else {
				// innermost target inside the body?
				found := false
				for i := len(stack) - 1; i >= 0; i-- {
					if x.Tok == token.BREAK && stack[i].breakable || x.Tok == token.CONTINUE && stack[i].isLoop {
						found = true
						break
					}
				}
				if !found {
					exits = x.Tok == token.BREAK // an unlabelled continue of this loop is not an exit
				}
			}
			if exits {
				out[x] = len(out)
			}
		}
	}
	walkList(body.List)
	return out
}

// hasGoStmt: the function under verification spawns a goroutine somewhere in its body.
func (u *Unit) hasGoStmt() bool {
	if u.goScan == 0 {
		u.goScan = 1
		if u.decl != nil && u.decl.Body != nil {
			ast.Inspect(u.decl.Body, func(n ast.Node) bool {
				if _, ok := n.(*ast.GoStmt); ok {
					u.goScan = 2
				}
				return u.goScan == 1
			})
		}
	}
	return u.goScan == 2
}

func (u *Unit) cellHeapName(pointee types.Type) string {
	if at, ok := pointee.Underlying().(*types.Array); ok {
		return u.elemHeap(at.Elem())
	}
	return u.ptrHeap(pointee)
}

func (u *Unit) modifiesHeap(callee *types.Func, sig *types.Signature, m Clause, some map[string]bool) bool {
	if name, _, ok := ghostModifies(m); ok {
		some[u.ghostHeap(name)] = true
		return true
	}
	if arg, ok := typeWideModifies(m); ok {
		// modifies allof(T): the whole heap of that type (resolved in this package; a type of another package that
		// cannot be resolved here falls back to "everything")
		env := &SpecEnv{u: u, st: u.entry, old: u.entry, names: map[string]Term{}, cs: u.cs, pkg: u.pkg.Types, own: true}
		nerr := len(u.specErrors)
		h := u.typeWideHeap(env, arg)
		u.specErrors = u.specErrors[:nerr]
		if h != "" {
			some[h] = true
			return true
		}
		return false
	}
	id, ok := ast.Unparen(m.Expr).(*ast.Ident)
	if !ok {
		return false
	}
	var t types.Type
	if sig.Recv() != nil && sig.Recv().Name() == id.Name {
		t = sig.Recv().Type()
	}
	for i := 0; i < sig.Params().Len(); i++ {
		if sig.Params().At(i).Name() == id.Name {
			t = sig.Params().At(i).Type()
		}
	}
	if t == nil {
		// a parameter renamed since the contract was written: by recorded position (bindings.go)
		if fb := u.eng.sigBindings(callee); fb != nil {
			if sig.Recv() != nil && fb.Recv == id.Name {
				t = sig.Recv().Type()
			}
			for i := 0; i < sig.Params().Len() && i < len(fb.Params); i++ {
				if fb.Params[i] == id.Name {
					t = sig.Params().At(i).Type()
				}
			}
		}
	}
	if t == nil {
		return false
	}
	switch ut := t.Underlying().(type) {
	case *types.Slice:
		some[u.elemHeap(ut.Elem())] = true
		return true
	case *types.Pointer:
		some[u.cellHeapName(ut.Elem())] = true
		return true
	}
	return false
}

func (u *Unit) lhsHeaps(l ast.Expr, some map[string]bool, all *bool) {
	switch x := ast.Unparen(l).(type) {
	case *ast.Ident:
		if v, ok := u.info.Uses[x].(*types.Var); ok && u.boxed[v] {
			some[u.cellHeapName(v.Type())] = true
		}
	case *ast.IndexExpr:
		t := u.typeOf(x.X)
		if t == nil {
			*all = true
			return
		}
		switch ut := t.Underlying().(type) {
		case *types.Slice:
			some[u.elemHeap(ut.Elem())] = true
		case *types.Map:
			hp, hv := u.mapHeaps(ut)
			some[hp] = true
			some[hv] = true
		case *types.Pointer:
			some[u.cellHeapName(ut.Elem())] = true
		case *types.Array:
			u.lhsHeaps(x.X, some, all)
		default:
			*all = true
		}
	case *ast.SelectorExpr:
		t := u.typeOf(x.X)
		if t == nil {
			*all = true
			return
		}
		if pt, ok := t.Underlying().(*types.Pointer); ok {
			some[u.ptrHeap(pt.Elem())] = true
			// embedded pointer hops are rare: be coarse
			if sel, ok := u.info.Selections[x]; ok && len(sel.Index()) > 1 {
				*all = true
			}
			return
		}
		u.lhsHeaps(x.X, some, all)
	case *ast.StarExpr:
		t := u.typeOf(x.X)
		if t == nil {
			*all = true
			return
		}
		if pt, ok := t.Underlying().(*types.Pointer); ok {
			some[u.cellHeapName(pt.Elem())] = true
		}
	default:
		*all = true
	}
}

// ---------- assignment ----------

func (u *Unit) assign(st *State, lhs ast.Expr, val Term) {
	switch x := ast.Unparen(lhs).(type) {
	case *ast.Ident:
		if x.Name == "_" {
			return
		}
		obj := u.info.Defs[x]
		if obj == nil {
			obj = u.info.Uses[x]
		}
		v, ok := obj.(*types.Var)
		if !ok {
			return
		}
		val = u.coerce(st, val, v.Type())
		if u.info.Defs[x] != nil {
			u.declareVar(st, v, val)
		} else {
			u.writeVar(st, v, val)
		}
	case *ast.IndexExpr:
		xt := u.typeOf(x.X)
		if xt == nil {
			u.unsupportedf(lhs.Pos(), "assignment target abstracted")
			u.havocAllHeaps(st)
			return
		}
		switch ut := xt.Underlying().(type) {
		case *types.Slice:
			s := u.eval(st, x.X)
			i := u.eval(st, x.Index)
			u.checkIndex(st, i, sLen(s.S), x, u.exprText(x))
			val = u.coerce(st, val, ut.Elem())
			u.sliceStore(st, s, u.toIdx(i), val.S)
		case *types.Array:
			a := u.eval(st, x.X)
			i := u.eval(st, x.Index)
			u.checkIndex(st, i, u.c.idxConst(ut.Len()), x, u.exprText(x))
			val = u.coerce(st, val, ut.Elem())
			u.assign(st, x.X, Term{S: fmt.Sprintf("(store %s %s %s)", a.S, u.toIdx(i), val.S), T: xt})
		case *types.Pointer:
			at, ok := ut.Elem().Underlying().(*types.Array)
			if !ok {
				u.unsupportedf(lhs.Pos(), "assignment target abstracted")
				return
			}
			p := u.eval(st, x.X)
			u.checkNonNil(st, p, x.X)
			i := u.eval(st, x.Index)
			u.checkIndex(st, i, u.c.idxConst(at.Len()), x, u.exprText(x))
			val = u.coerce(st, val, at.Elem())
			blk := u.loadCell(st, ut.Elem(), p.S)
			u.storeCell(st, ut.Elem(), p.S, fmt.Sprintf("(store %s %s %s)", blk.S, u.toIdx(i), val.S))
		case *types.Map:
			m := u.eval(st, x.X)
			k := u.evalAs(st, x.Index, ut.Key())
			u.emit(st, "safety", u.safetyName("nilmap", u.exprText(x)), "assignment to entry in nil map: "+u.exprText(x), x.Pos(), not(eq(m.S, "0")))
			st.assume(not(eq(m.S, "0")))
			val = u.coerce(st, val, ut.Elem())
			u.mapStore(st, m, k, val, ut)
		default:
			u.unsupportedf(lhs.Pos(), "assignment target abstracted")
			u.havocAllHeaps(st)
		}
	case *ast.SelectorExpr:
		sel, ok := u.info.Selections[x]
		if !ok {
			// package-level variable of another package
			u.c.note("write to %s ignored", u.exprText(x))
			return
		}
		u.assignField(st, x, sel.Index(), val)
	case *ast.StarExpr:
		p := u.eval(st, x.X)
		u.checkNonNil(st, p, x.X)
		pt, ok := p.T.Underlying().(*types.Pointer)
		if !ok {
			u.unsupportedf(lhs.Pos(), "assignment through non-pointer")
			return
		}
		val = u.coerce(st, val, pt.Elem())
		u.storeCell(st, pt.Elem(), p.S, val.S)
	default:
		u.unsupportedf(lhs.Pos(), "assignment target %T abstracted", lhs)
		u.havocAllHeaps(st)
	}
}

// assignField assigns to x.f... following the selection path.
func (u *Unit) assignField(st *State, x *ast.SelectorExpr, path []int, val Term) {
	base := u.eval(st, x.X)
	// walk down to the struct that directly holds the last field
	type hop struct {
		t   Term
		idx int
	}
	cur := base
	var chain []hop // struct values along the way (after deref)
	var lastPtr *Term
	var lastPtrDepth int
	for d, i := range path {
		if pt, ok := cur.T.Underlying().(*types.Pointer); ok {
			u.checkNonNil(st, cur, x.X)
			p := cur
			lastPtr = &p
			lastPtrDepth = d
			cur = u.loadCell(st, pt.Elem(), cur.S)
		}
		if _, ok := cur.T.Underlying().(*types.Struct); !ok {
			u.unsupportedf(x.Pos(), "field assignment on non-struct")
			return
		}
		chain = append(chain, hop{cur, i})
		if d < len(path)-1 {
			cur = u.fieldGet(cur, i)
		}
	}
	ft := chain[len(chain)-1].t.T.Underlying().(*types.Struct).Field(chain[len(chain)-1].idx).Type()
	val = u.coerce(st, val, ft)
	// rebuild from the innermost struct outwards up to the last pointer hop (or the base value)
	start := 0
	if lastPtr != nil {
		start = lastPtrDepth
	}
	nv := val.S
	for d := len(chain) - 1; d >= start; d-- {
		nv = u.fieldSet(chain[d].t, chain[d].idx, nv).S
	}
	if lastPtr != nil {
		pt := lastPtr.T.Underlying().(*types.Pointer)
		u.storeCell(st, pt.Elem(), lastPtr.S, nv)
		return
	}
	u.assign(st, x.X, Term{S: nv, T: base.T})
}

// ---------- statements ----------

func (u *Unit) execBlock(st *State, stmts []ast.Stmt) *State {
	for _, s := range stmts {
		if st == nil {
			return nil
		}
		st = u.exec(st, s)
	}
	return st
}

func (u *Unit) exec(st *State, s ast.Stmt) *State {
	u.curSt = st
	switch s := s.(type) {
	case *ast.BlockStmt:
		return u.execBlock(st, s.List)
	case *ast.EmptyStmt:
		return st
	case *ast.ExprStmt:
		u.eval(st, s.X)
		if u.isDead(st) {
			return nil
		}
		return st
	case *ast.AssignStmt:
		return u.execAssign(st, s)
	case *ast.IncDecStmt:
		op := token.ADD
		if s.Tok == token.DEC {
			op = token.SUB
		}
		x := u.eval(st, s.X)
		one := Term{S: "1", K: bigOne}
		r := u.binop(st, op, x, one, x.T, &ast.BinaryExpr{X: s.X, Op: op, Y: &ast.BasicLit{Kind: token.INT, Value: "1", ValuePos: s.Pos()}, OpPos: s.Pos()}, false)
		u.assign(st, s.X, r)
		return st
	case *ast.DeclStmt:
		gd, ok := s.Decl.(*ast.GenDecl)
		if !ok || gd.Tok != token.VAR {
			return st
		}
		for _, sp := range gd.Specs {
			vs := sp.(*ast.ValueSpec)
			if len(vs.Values) == 1 && len(vs.Names) > 1 {
				t := u.eval(st, vs.Values[0])
				for i, n := range vs.Names {
					if t.IsTuple() && i < len(t.Tuple) {
						u.assign(st, n, t.Tuple[i])
					}
				}
				continue
			}
			for i, n := range vs.Names {
				if n.Name == "_" {
					if i < len(vs.Values) {
						u.eval(st, vs.Values[i])
					}
					continue
				}
				v := u.info.Defs[n].(*types.Var)
				if i < len(vs.Values) {
					u.declareVar(st, v, u.evalAs(st, vs.Values[i], v.Type()))
				} else {
					u.declareVar(st, v, u.zeroOf(v.Type()))
				}
			}
		}
		return st
	case *ast.ReturnStmt:
		if len(u.inlineStack) > 0 {
			u.inlineReturn(st, s)
			return nil
		}
		u.execReturn(st, s)
		return nil
	case *ast.IfStmt:
		if s.Init != nil {
			st = u.exec(st, s.Init)
			if st == nil {
				return nil
			}
		}
		base := st
		cond := u.eval(st, s.Cond)
		thenSt := st.clone()
		thenSt.assume(cond.S)
		elseSt := st.clone()
		elseSt.assume(not(cond.S))
		r1 := u.execBlock(thenSt, s.Body.List)
		var r2 *State
		if s.Else != nil {
			r2 = u.exec(elseSt, s.Else)
		} else {
			r2 = elseSt
		}
		return u.merge(base, []*State{r1, r2})
	case *ast.ForStmt:
		return u.execFor(st, s, "")
	case *ast.RangeStmt:
		return u.execRange(st, s, "")
	case *ast.LabeledStmt:
		switch inner := s.Stmt.(type) {
		case *ast.ForStmt:
			return u.execFor(st, inner, s.Label.Name)
		case *ast.RangeStmt:
			return u.execRange(st, inner, s.Label.Name)
		case *ast.SwitchStmt:
			return u.execSwitch(st, inner, s.Label.Name)
		}
		return u.exec(st, s.Stmt)
	case *ast.BranchStmt:
		label := ""
		if s.Label != nil {
			label = s.Label.Name
		}
		// `loop N exit#k <cond>`: every loop that this statement leaves early and that states exit reasons
		for _, lx := range u.loopStack {
			if lx.exitSites == nil || lx.lc == nil {
				continue
			}
			k, isExit := lx.exitSites[s]
			if !isExit {
				continue
			}
			env := u.invEnv(st, s.Pos())
			cls := lx.lc.Exits[k]
			if len(cls) == 0 {
				u.emit(st, "inv", fmt.Sprintf("loop-exit#%d.%d", lx.ord, k), fmt.Sprintf("loop %d is left here (exit site %d) without a stated reason", lx.ord, k), s.Pos(), "false")
			}
			for i, cl := range cls {
				u.emit(st, "inv", fmt.Sprintf("loop-exit#%d.%d.%d", lx.ord, k, i), fmt.Sprintf("reason for leaving loop %d at exit site %d: %s", lx.ord, k, cl.Text), s.Pos(), env.evalBool(cl.Expr))
			}
		}
		switch s.Tok {
		case token.BREAK:
			for i := len(u.loopStack) - 1; i >= 0; i-- {
				lc := u.loopStack[i]
				if (label == "" || lc.label == label) && !(label == "" && false) {
					lc.breaks = append(lc.breaks, st)
					return nil
				}
			}
		case token.CONTINUE:
			for i := len(u.loopStack) - 1; i >= 0; i-- {
				lc := u.loopStack[i]
				if lc.isSwitch {
					continue
				}
				if label == "" || lc.label == label {
					lc.continues = append(lc.continues, st)
					return nil
				}
			}
		}
		u.giveUp(s.Pos(), "unsupported branch statement %s", s.Tok)
		return nil
	case *ast.SwitchStmt:
		return u.execSwitch(st, s, "")
	case *ast.TypeSwitchStmt:
		return u.execTypeSwitch(st, s)
	case *ast.SelectStmt:
		return u.execSelect(st, s)
	case *ast.GoStmt:
		if u.spawnContracted(st, s.Call) {
			return st
		}
		u.unsupportedf(s.Pos(), "go statement: spawned call abstracted (heaps havoced; data-race freedom assumed)")
		for _, a := range s.Call.Args {
			u.eval(st, a)
		}
		if fl, ok := s.Call.Fun.(*ast.FuncLit); ok {
			u.eng.noteFuncLit(u, fl)
		} else {
			u.eval(st, s.Call.Fun)
		}
		u.havocAllHeaps(st)
		return st
	case *ast.DeferStmt:
		if len(u.inlineStack) > 0 {
			fr := u.inlineStack[len(u.inlineStack)-1]
			fr.defers = append(fr.defers, s.Call)
			st.ghost[fmt.Sprintf("idefer#%p#%d", fr, len(fr.defers)-1)] = "1"
			return st
		}
		u.deferList = append(u.deferList, s.Call)
		if fl, ok := s.Call.Fun.(*ast.FuncLit); ok {
			u.eng.noteFuncLit(u, fl)
		}
		u.deferGuards = append(u.deferGuards, len(st.pc))
		st.ghost[fmt.Sprintf("defer#%d", len(u.deferList)-1)] = "1"
		return st
	case *ast.SendStmt:
		u.eval(st, s.Chan)
		u.eval(st, s.Value)
		u.unsupportedf(s.Pos(), "channel send abstracted")
		u.resync(st)
		return st
	}
	u.giveUp(s.Pos(), "unsupported statement %T", s)
	return nil
}

func (u *Unit) isDead(st *State) bool {
	return len(st.pc) > 0 && st.pc[len(st.pc)-1] == "false"
}

func (u *Unit) execAssign(st *State, s *ast.AssignStmt) *State {
	if s.Tok != token.ASSIGN && s.Tok != token.DEFINE {
		// op-assign
		op := map[token.Token]token.Token{token.ADD_ASSIGN: token.ADD, token.SUB_ASSIGN: token.SUB, token.MUL_ASSIGN: token.MUL,
			token.QUO_ASSIGN: token.QUO, token.REM_ASSIGN: token.REM, token.AND_ASSIGN: token.AND, token.OR_ASSIGN: token.OR,
			token.XOR_ASSIGN: token.XOR, token.SHL_ASSIGN: token.SHL, token.SHR_ASSIGN: token.SHR, token.AND_NOT_ASSIGN: token.AND_NOT}[s.Tok]
		x := u.eval(st, s.Lhs[0])
		y := u.eval(st, s.Rhs[0])
		r := u.binop(st, op, x, y, x.T, &ast.BinaryExpr{X: s.Lhs[0], Op: op, Y: s.Rhs[0], OpPos: s.TokPos}, false)
		r.T = x.T
		u.assign(st, s.Lhs[0], r)
		return st
	}
	if len(s.Lhs) == len(s.Rhs) {
		var vals []Term
		for i, r := range s.Rhs {
			var lt types.Type
			if id, ok := s.Lhs[i].(*ast.Ident); !ok || id.Name != "_" {
				lt = u.typeOf(s.Lhs[i])
				if id, ok := s.Lhs[i].(*ast.Ident); ok && lt == nil {
					if o := u.info.Defs[id]; o != nil {
						lt = o.Type()
					}
				}
			}
			if lt != nil {
				vals = append(vals, u.evalAs(st, r, lt))
			} else {
				vals = append(vals, u.eval(st, r))
			}
		}
		if u.isDead(st) {
			return nil
		}
		for i, l := range s.Lhs {
			u.assign(st, l, vals[i])
		}
		return st
	}
	if len(s.Rhs) == 1 {
		var t Term
		rhs := ast.Unparen(s.Rhs[0])
		switch r := rhs.(type) {
		case *ast.TypeAssertExpr:
			t = u.evalTypeAssert(st, r, true)
		case *ast.IndexExpr:
			if mt, ok := u.typeOf(r.X).Underlying().(*types.Map); ok {
				m := u.eval(st, r.X)
				k := u.eval(st, r.Index)
				v, present := u.mapLookup(st, m, k, mt)
				t = Term{Tuple: []Term{v, {S: present, T: types.Typ[types.Bool]}}}
			} else {
				t = u.eval(st, rhs)
			}
		default:
			t = u.eval(st, rhs)
		}
		if u.isDead(st) {
			return nil
		}
		if !t.IsTuple() || len(t.Tuple) != len(s.Lhs) {
			u.unsupportedf(s.Pos(), "multi-value assignment abstracted")
			for _, l := range s.Lhs {
				if lt := u.lhsType(l); lt != nil {
					u.assign(st, l, u.freshOf(st, lt, "mv"))
				}
			}
			return st
		}
		for i, l := range s.Lhs {
			u.assign(st, l, t.Tuple[i])
		}
		return st
	}
	u.giveUp(s.Pos(), "unsupported assignment shape")
	return nil
}

func (u *Unit) lhsType(l ast.Expr) types.Type {
	if id, ok := l.(*ast.Ident); ok {
		if id.Name == "_" {
			return nil
		}
		if o := u.info.Defs[id]; o != nil {
			return o.Type()
		}
	}
	return u.typeOf(l)
}

// ---------- return ----------

func (u *Unit) execReturn(st *State, s *ast.ReturnStmt) {
	if s != nil && len(s.Results) > 0 {
		if len(s.Results) == 1 && len(u.results) > 1 {
			t := u.eval(st, s.Results[0])
			if t.IsTuple() {
				for i, rv := range u.results {
					if i < len(t.Tuple) {
						u.writeVar(st, rv, u.coerce(st, t.Tuple[i], rv.Type()))
					}
				}
			}
		} else {
			var vals []Term
			for i, r := range s.Results {
				vals = append(vals, u.evalAs(st, r, u.results[i].Type()))
			}
			for i, rv := range u.results {
				u.writeVar(st, rv, vals[i])
			}
		}
	}
	if u.isDead(st) {
		return
	}
	// `loop N returns <cond>` clauses of the enclosing loops
	for _, lx := range u.loopStack {
		if lx.lc == nil || len(lx.lc.Returns) == 0 || s == nil {
			continue
		}
		env := u.invEnv(st, s.Pos())
		for i, rv := range u.results {
			t := u.readVar(st, rv, token.NoPos)
			env.names[fmt.Sprintf("result%d", i)] = t
			if i == 0 {
				env.names["result"] = t
			}
		}
		for k, cl := range lx.lc.Returns {
			u.emit(st, "post", fmt.Sprintf("loop-return#%d.%d", lx.ord, k), fmt.Sprintf("at a return inside loop %d: %s", lx.ord, cl.Text), s.Pos(), env.evalBool(cl.Expr))
		}
	}
	u.finishReturn(st, s)
}

func (u *Unit) finishReturn(st *State, s *ast.ReturnStmt) {
	pos := u.endPos
	if s != nil {
		pos = s.Pos()
	}
	// deferred calls, LIFO (those registered on this path)
	for i := len(u.deferList) - 1; i >= 0; i-- {
		if st.ghost[fmt.Sprintf("defer#%d", i)] == "" {
			continue
		}
		call := u.deferList[i]
		if fl, isLit := call.Fun.(*ast.FuncLit); isLit {
			if u.inlinableDeferLit(call, fl) {
				u.execLitInline(st, call, fl)
				if u.isDead(st) {
					return
				}
				continue
			}
			u.unsupportedf(call.Pos(), "deferred function literal abstracted (heaps havoced)")
			u.havocAllHeaps(st)
			continue
		}
		u.eval(st, call)
	}
	// the spawned goroutines' writes are visible to the caller; closure-written LOCALS are not havoced here (a named
	// result has already received its value)
	for _, f := range u.spawned {
		f(st)
	}
	u.retCount++
	u.checkPost(st, pos)
}

func (u *Unit) checkPost(st *State, pos token.Pos) {
	names := map[string]Term{}
	for i, rv := range u.results {
		t := u.readVar(st, rv, token.NoPos)
		names[fmt.Sprintf("result%d", i)] = t
		if i == 0 {
			names["result"] = t
		}
		if rv.Name() != "" && rv.Name() != "_" {
			names[rv.Name()] = t
		}
	}
	if u.obj != nil && u.sig != nil {
		u.eng.aliasSigNames(names, u.obj, u.sig, "results")
	}
	if u.ct != nil {
		env := &SpecEnv{u: u, st: st, old: u.entry, names: names, cs: u.cs, pkg: u.pkg.Types, own: true, scopePos: u.endPos}
		for i, en := range u.ct.Ensures {
			nerr := len(u.specErrors)
			env.outOfScope = false
			g := env.evalBool(en.Expr)
			if env.outOfScope {
				// the clause names a local that is not declared yet on this path. For `A ==> B` where only B needs that
				// local the clause still says something about this return: it must not satisfy A (otherwise an early
				// return placed before the local's declaration would escape the clause). Any other shape says nothing here.
				u.specErrors = u.specErrors[:nerr]
				if ce, ok := ast.Unparen(en.Expr).(*ast.CallExpr); ok && len(ce.Args) == 2 {
					if id, ok := ce.Fun.(*ast.Ident); ok && id.Name == "__imp" {
						env.outOfScope = false
						nerr2 := len(u.specErrors)
						a := env.evalBool(ce.Args[0])
						if !env.outOfScope && len(u.specErrors) == nerr2 {
							u.emit(st, "post", fmt.Sprintf("post#%d", i), "ensures "+en.Text+"  [a local of the consequent does not exist at this return: the antecedent must be false here]", pos, not(a))
							continue
						}
						u.specErrors = u.specErrors[:nerr2]
					}
				}
				continue
			}
			u.emit(st, "post", fmt.Sprintf("post#%d", i), "ensures "+en.Text, pos, g)
		}
		if !u.mentionsHeld {
			for _, g := range sortedKeys(st.ghost) {
				if strings.HasPrefix(g, "held:") {
					key := strings.TrimPrefix(g, "held:")
					u.emit(st, "lock", "lock-balanced["+key+"]", "lock state of "+key+" at return equals the state at entry (contract does not mention held())", pos, eq(st.ghost[g], u.heldTerm(u.entry, key)))
				}
			}
		}
		for i, pc := range u.ct.Panics {
			g := not(env.evalBool(pc.Expr))
			u.emit(st, "post", fmt.Sprintf("returns-only-if-not-panics#%d", i), "normal return only when not ("+pc.Text+")", pos, g)
		}
		if !u.ct.NoFrame && !u.ct.ModifiesAll {
			u.checkFrame(st, env, pos)
		}
		// ghost lock state is part of the postcondition through held(); nothing else
	}
	// canary: the exit must be reachable (deliberately false goal must come back sat)
	u.emitExpect(st, "canary", "canary", "exit reachable (assert false must fail)", pos, "false", "sat")
}

type frameGoal struct{ name, what, goal string }

// checkFrame: heaps are unchanged outside the modifies clause for everything allocated at entry.
func (u *Unit) checkFrame(st *State, env *SpecEnv, pos token.Pos) {
	for _, g := range u.frameGoals(st, nil) {
		u.emit(st, "frame", g.name, g.what, pos, g.goal)
	}
}

// frameGoals builds the frame conditions of the function's modifies clause for the heaps in `only` (nil = all changed heaps).
func (u *Unit) frameGoals(st *State, only map[string]bool) []frameGoal {
	c := u.c
	var out []frameGoal
	if u.ct == nil || u.ct.NoFrame || u.ct.ModifiesAll {
		return nil
	}
	type sliceMod struct{ ref, off, ln string }
	cellMods := map[string][]string{}
	sliceMods := map[string][]sliceMod{}
	mapMods := map[string]bool{}
	oldEnv := &SpecEnv{u: u, st: u.entry, old: u.entry, names: map[string]Term{}, cs: u.cs, pkg: u.pkg.Types, own: true, scopePos: u.bodyPos, inOld: true}
	for _, m := range u.ct.Modifies {
		if arg, ok := typeWideModifies(m); ok {
			if h := u.typeWideHeap(oldEnv, arg); h != "" {
				mapMods[h] = true
			}
			continue
		}
		if name, arg, ok := ghostModifies(m); ok {
			ref := oldEnv.eval(arg)
			h := u.ghostHeap(name)
			cellMods[h] = append(cellMods[h], ref.S)
			continue
		}
		t := oldEnv.eval(m.Expr)
		if t.T == nil {
			continue
		}
		switch ut := t.T.Underlying().(type) {
		case *types.Slice:
			h := u.elemHeap(ut.Elem())
			sliceMods[h] = append(sliceMods[h], sliceMod{sRef(t.S), sOff(t.S), sLen(t.S)})
		case *types.Pointer:
			h := u.cellHeapName(ut.Elem())
			cellMods[h] = append(cellMods[h], t.S)
		case *types.Map:
			hp, hv := u.mapHeaps(ut)
			mapMods[hp] = true
			mapMods[hv] = true
		}
	}
	alloc0 := u.entry.alloc
	ghostFrame := declaresGhostFrame(u.ct)
	if st.unk && only == nil {
		// an uncontracted / modifies-all callee (or a loop whose body contains one) ran on this path: heaps this unit never
		// names may have changed as well, so the frame cannot be established by looking at the named heaps only
		out = append(out, frameGoal{"frame[*]", "no everything-havoc (uncontracted or modifies-all callee) on a path of a frame-checked function", "false"})
	}
	for _, h := range sortedKeys(u.c.heapNames) {
		if mapMods[h] || (only != nil && !only[h]) {
			continue
		}
		if strings.HasPrefix(h, "HG_") && (!ghostFrame || h == "HG_ctxdone") {
			continue
		}
		if strings.HasPrefix(h, "HL_") || h == "HG_called" {
			continue // derived from the map heaps, which are frame-checked themselves / the unit's own call counters
		}
		end := u.heapCur(st, h)
		start := u.heapCur(u.entry, h)
		if end == start {
			continue
		}
		u.c.n++
		r := fmt.Sprintf("r_q%d", u.c.n)
		var except []string
		for _, p := range cellMods[h] {
			except = append(except, not(eq(r, p)))
		}
		for _, sm := range sliceMods[h] {
			except = append(except, not(eq(r, sm.ref)))
		}
		var spares []spareRegion
		for _, sp := range st.spare {
			if sp.heap == h {
				spares = append(spares, sp)
			}
		}
		var g string
		if len(spares) == 0 {
			g = fmt.Sprintf("(forall ((%s Int)) %s)", r, implies(and(append([]string{"(<= 1 " + r + ")", "(< " + r + " " + alloc0 + ")"}, except...)...),
				eq(fmt.Sprintf("(select %s %s)", end, r), fmt.Sprintf("(select %s %s)", start, r))))
		} else {
			// element-wise, exempting spare capacity written by in-place append (assumed unobservable)
			u.c.n++
			k := fmt.Sprintf("k_q%d", u.c.n)
			for _, sp := range spares {
				except = append(except, or(not(eq(r, sp.ref)), c.idxLt(k, sp.lo)))
			}
			g = fmt.Sprintf("(forall ((%s Int) (%s %s)) %s)", r, k, c.idxSort(), implies(and(append([]string{"(<= 1 " + r + ")", "(< " + r + " " + alloc0 + ")"}, except...)...),
				eq(fmt.Sprintf("(select (select %s %s) %s)", end, r, k), fmt.Sprintf("(select (select %s %s) %s)", start, r, k))))
		}
		out = append(out, frameGoal{"frame[" + h + "]", "nothing outside the modifies clause changes in " + h, g})
		// inside a modified slice's block: elements outside [off, off+len) unchanged
		for i, sm := range sliceMods[h] {
			u.c.n++
			k := fmt.Sprintf("k_q%d", u.c.n)
			out1 := or(c.idxLt(k, sm.off), c.idxLe(c.idxAdd(sm.off, sm.ln), k))
			for j, o := range sliceMods[h] {
				if j != i {
					out1 = and(out1, or(not(eq(o.ref, sm.ref)), c.idxLt(k, o.off), c.idxLe(c.idxAdd(o.off, o.ln), k)))
				}
			}
			g := fmt.Sprintf("(forall ((%s %s)) %s)", k, c.idxSort(), implies(out1,
				eq(fmt.Sprintf("(select (select %s %s) %s)", end, sm.ref, k), fmt.Sprintf("(select (select %s %s) %s)", start, sm.ref, k))))
			out = append(out, frameGoal{fmt.Sprintf("frame[%s]#slice%d", h, i), "elements outside the modified slice range unchanged in " + h, g})
		}
	}
	return out
}

// ---------- loops ----------

func (u *Unit) loopContract(stmt ast.Stmt) (*LoopContract, int) {
	n := u.loopOrd
	u.loopOrd++
	n0 := n
	n = u.baseLoop(stmt, n)
	if os.Getenv("VCGO_DEBUG_LOOPS") != "" {
		fmt.Fprintf(os.Stderr, "loop exec#%d -> contract#%d at %s (%s)\n", n0, n, u.fset.Position(stmt.Pos()), u.key)
	}
	if u.ct != nil {
		if lc, ok := u.ct.Loops[n]; ok {
			u.loopsSeen[n] = true
			return lc, n
		}
	}
	return &LoopContract{}, n
}

func (u *Unit) invEnv(st *State, pos token.Pos) *SpecEnv {
	return &SpecEnv{u: u, st: st, old: u.entry, names: map[string]Term{}, cs: u.cs, pkg: u.pkg.Types, own: true, scopePos: pos, loopInv: true}
}

// havocLoop havocs everything the loop may change.
func (u *Unit) havocLoop(st *State, body ast.Node, extra []*types.Var) {
	vars := u.assignedVars(body)
	vars = append(vars, extra...)
	seen := map[*types.Var]bool{}
	for _, v := range vars {
		if seen[v] {
			continue
		}
		seen[v] = true
		if _, ok := st.vars[v]; !ok {
			continue // declared inside the loop
		}
		if u.boxed[v] {
			continue // lives in the heap
		}
		if cur := st.vars[v]; cur.Spec != "" {
			st.vars[v] = Term{S: u.c.fresh(v.Name(), cur.Spec), Spec: cur.Spec}
			continue
		}
		f := u.freshOf(st, v.Type(), v.Name())
		st.vars[v] = f
	}
	all, some := u.loopHeapEffects(body)
	if all {
		for _, h := range sortedKeys(u.c.heapNames) {
			u.havocHeap(st, h)
		}
		u.hvCounter++
		st.hvgen = u.hvCounter
		if u.loopGens == nil {
			u.loopGens = map[int]bool{}
		}
		u.loopGens[st.hvgen] = true
	} else {
		for _, h := range sortedKeys(some) {
			u.havocHeap(st, h)
		}
	}
	if u.hasCountedCall(body) {
		// the unit's own call counters change in this loop (havocHeap leaves them alone otherwise)
		h := u.ghostHeap("called")
		st.heaps[h] = u.c.fresh(h, u.c.heapNames[h])
	}
	// allocation counter only grows
	na := u.c.fresh("alloc", "Int")
	st.assume("(>= " + na + " " + st.alloc + ")")
	st.alloc = na
	// ghost lock state: havoc only if the body can change it
	if u.locksTouched(body) {
		for _, g := range sortedKeys(st.ghost) {
			if strings.HasPrefix(g, "held:") {
				st.ghost[g] = u.c.fresh("held", "Int")
			}
		}
	}
}

// locksTouched: the loop body contains a mutex operation, a call of a contracted function whose contract speaks about
// held(), or a call of an uncontracted repository function (contracted functions without held() preserve the lock state).
func (u *Unit) locksTouched(n ast.Node) bool {
	touched := false
	seenLit := map[*ast.FuncLit]bool{}
	var visit func(n ast.Node) bool
	visit = func(n ast.Node) bool {
		switch n := n.(type) {
		case *ast.FuncLit:
			return u.inlineLit[n]
		case *ast.CallExpr:
			callee, _ := u.staticCallee(n)
			if callee == nil {
				if fl := u.inlineTarget(n); fl != nil {
					if !seenLit[fl] {
						seenLit[fl] = true
						ast.Inspect(fl.Body, visit)
					}
					return true
				}
				if tv, ok := u.info.Types[n.Fun]; ok && tv.IsType() {
					return true
				}
				if id, ok := ast.Unparen(n.Fun).(*ast.Ident); ok {
					if _, isB := u.info.Uses[id].(*types.Builtin); isB {
						return true
					}
					if u.ct != nil && u.ct.FnPure[id.Name] {
						return true
					}
				}
				touched = true
				return true
			}
			full := callee.FullName()
			if strings.HasPrefix(full, "(*sync.RWMutex).") || strings.HasPrefix(full, "(*sync.Mutex).") {
				touched = true
				return true
			}
			if callee.Pkg() != nil && u.eng.isRepoPkg(callee.Pkg().Path()) {
				ct, _ := u.eng.contractFor(callee)
				if ct == nil {
					// an uncontracted function of ANOTHER package cannot reach the mutexes of this package's types
					// (no import cycle), except through callbacks, which are lock-call-dyn obligations where they are called
					if callee.Pkg() == u.pkg.Types {
						touched = true
					}
					return true
				}
				for _, cl := range append(append([]Clause{}, ct.Requires...), ct.Ensures...) {
					if strings.Contains(cl.Text, "held(") {
						touched = true
					}
				}
			}
		}
		return true
	}
	ast.Inspect(n, visit)
	return touched
}

func (u *Unit) execFor(st *State, s *ast.ForStmt, label string) *State {
	if s.Init != nil {
		st = u.exec(st, s.Init)
		if st == nil {
			return nil
		}
	}
	lc, n := u.loopContract(s)
	if as, ok := s.Init.(*ast.AssignStmt); ok && as.Tok == token.DEFINE && len(as.Lhs) == 1 && len(as.Rhs) == 1 {
		if inc, ok := s.Post.(*ast.IncDecStmt); ok && inc.Tok == token.INC {
			id, _ := as.Lhs[0].(*ast.Ident)
			pid, _ := ast.Unparen(inc.X).(*ast.Ident)
			if lit, isLit := as.Rhs[0].(*ast.BasicLit); id != nil && pid != nil && isLit && lit.Value == "0" {
				if v, ok := u.info.Defs[id].(*types.Var); ok && u.info.Uses[pid] == v {
					if u.forIdxVars == nil {
						u.forIdxVars = map[int]*types.Var{}
					}
					u.forIdxVars[n] = v
				}
			}
		}
	}
	bodyNode := &ast.BlockStmt{List: append([]ast.Stmt{}, s.Body.List...)}
	if s.Post != nil {
		bodyNode.List = append(bodyNode.List, s.Post)
	}
	return u.runLoop(st, lc, n, label, s.Pos(), s.Body.Pos(), bodyNode,
		func(st *State) (string, bool) {
			if s.Cond == nil {
				return "true", true
			}
			return u.eval(st, s.Cond).S, true
		},
		func(st *State) *State { return u.execBlock(st, s.Body.List) },
		func(st *State) *State {
			if s.Post != nil {
				return u.exec(st, s.Post)
			}
			return st
		}, nil)
}

// runLoop is the invariant-based loop rule.
func (u *Unit) runLoop(st *State, lc *LoopContract, n int, label string, pos, bodyPos token.Pos, havocNode ast.Node,
	cond func(*State) (string, bool), body func(*State) *State, post func(*State) *State, extraHavoc []*types.Var) *State {
	// 1. invariants on entry
	env := u.invEnv(st, bodyPos)
	for i, inv := range lc.Invariants {
		u.emit(st, "inv", fmt.Sprintf("inv-entry#%d.%d", n, i), "loop invariant holds on entry: "+inv.Text, pos, env.evalBool(inv.Expr))
	}
	for i, cl := range lc.Entry {
		u.emit(st, "inv", fmt.Sprintf("loop-entry#%d.%d", n, i), "when loop "+fmt.Sprint(n)+" is entered: "+cl.Text, pos, env.evalBool(cl.Expr))
	}
	// 2. havoc + assume invariants
	head := st.clone()
	u.havocLoop(head, havocNode, extraHavoc)
	if u.loopAlloc == nil {
		u.loopAlloc = map[int]string{}
	}
	u.loopAlloc[n] = head.alloc // allocation counter at the head of the (generic) current iteration: freshin(n, x)
	henv := u.invEnv(head, bodyPos)
	for _, inv := range lc.Invariants {
		head.assume(henv.evalBool(inv.Expr))
	}
	// implicit frame invariant: the function's modifies clause is respected at every iteration
	for _, g := range u.frameGoals(head, nil) {
		if g.name == "frame[*]" {
			continue // an obligation of the exits, never an assumption
		}
		head.assume(g.goal)
	}
	for _, us := range lc.Uses {
		head.assume(henv.useClause(us))
	}
	var dec0 string
	if lc.Decreases != nil {
		dec0 = u.toIdxSpec(henv.eval(lc.Decreases.Expr))
	}
	// 3. condition
	exitHook := u.pendingExitHook
	u.pendingExitHook = nil
	c, _ := cond(head)
	exit := head.clone()
	exit.assume(not(c))
	if exitHook != nil {
		exitHook(exit) // facts of the NORMAL exit (condition false), e.g. a map range has visited every present key
	}
	in := head.clone()
	in.assume(c)
	// cover: the body is reachable under the invariant
	if len(lc.Invariants) > 0 {
		u.emitExpect(in, "canary", fmt.Sprintf("cover-loop#%d", n), "loop body reachable under the invariant", pos, "false", "sat")
	}
	lctx := &loopCtx{label: label, ord: n, lc: lc}
	if len(lc.Exits) > 0 {
		lctx.exitSites = exitSitesOf(havocNode, label)
	}
	u.loopStack = append(u.loopStack, lctx)
	iterStart := in.clone() // for athead(...) in step clauses
	after := body(in)
	u.loopStack = u.loopStack[:len(u.loopStack)-1]
	// continue states join the fallthrough before the post statement
	conts := append([]*State{after}, lctx.continues...)
	back := u.merge(head, conts)
	if back != nil && len(lc.Steps) > 0 {
		// `loop N step <cond>`: holds at the end of every iteration (fallthrough and `continue` paths alike), evaluated
		// before the post statement with the locals of the body still in scope
		senv := u.invEnv(back, bodyPos)
		senv.scopePos = token.NoPos
		senv.head = iterStart
		for i, cl := range lc.Steps {
			u.emit(back, "inv", fmt.Sprintf("loop-step#%d.%d", n, i), "at the end of every iteration of loop "+fmt.Sprint(n)+": "+cl.Text, pos, senv.evalBool(cl.Expr))
		}
	}
	if back != nil {
		back = post(back)
	}
	if back != nil {
		benv := u.invEnv(back, bodyPos)
		for i, inv := range lc.Invariants {
			u.emit(back, "inv", fmt.Sprintf("inv-step#%d.%d", n, i), "loop invariant preserved: "+inv.Text, pos, benv.evalBool(inv.Expr))
		}
		for _, g := range u.frameGoals(back, nil) {
			u.emit(back, "frame", fmt.Sprintf("loop#%d-%s", n, g.name), "at the loop back edge: "+g.what, pos, g.goal)
		}
		if lc.Decreases != nil {
			d1 := u.toIdxSpec(benv.eval(lc.Decreases.Expr))
			u.emit(back, "decreases", fmt.Sprintf("decreases-loop#%d", n), "loop variant decreases and is bounded below: "+lc.Decreases.Text, pos,
				and(u.c.idxLt(d1, dec0), u.c.idxLe(u.c.idxConst(0), dec0)))
		}
	}
	// 4. exit = normal exit + breaks
	outs := append([]*State{exit}, lctx.breaks...)
	// breaks descend from head as well
	return u.merge(head, outs)
}

func (u *Unit) toIdxSpec(t Term) string {
	if t.T == nil && t.K != nil {
		return u.c.idxConst(t.K.Int64())
	}
	if t.T == nil {
		return t.S
	}
	return u.toIdx(t)
}

func (u *Unit) execRange(st *State, s *ast.RangeStmt, label string) *State {
	xt := u.typeOf(s.X)
	c := u.c
	lc, n := u.loopContract(s)
	var keyVar, valVar *types.Var
	getVar := func(e ast.Expr) *types.Var {
		if e == nil {
			return nil
		}
		id, ok := e.(*ast.Ident)
		if !ok || id.Name == "_" {
			return nil
		}
		if v, ok := u.info.Defs[id].(*types.Var); ok {
			return v
		}
		if v, ok := u.info.Uses[id].(*types.Var); ok {
			return v
		}
		return nil
	}
	keyVar, valVar = getVar(s.Key), getVar(s.Value)
	if (s.Key != nil && keyVar == nil && !isBlank(s.Key)) || (s.Value != nil && valVar == nil && !isBlank(s.Value)) {
		u.giveUp(s.Pos(), "range with non-identifier iteration variables")
	}
	intT := types.Typ[types.Int]
	switch ut := xt.Underlying().(type) {
	case *types.Slice, *types.Array, *types.Pointer, *types.Basic:
		var ln string
		var elemAt func(st *State, i string) Term
		x := u.eval(st, s.X)
		switch t := ut.(type) {
		case *types.Slice:
			ln = sLen(x.S)
			elemAt = func(st *State, i string) Term { return u.sliceElem(st, x, i) }
		case *types.Array:
			ln = c.idxConst(t.Len())
			elemAt = func(st *State, i string) Term { return Term{S: fmt.Sprintf("(select %s %s)", x.S, i), T: t.Elem()} }
		case *types.Pointer:
			at, ok := t.Elem().Underlying().(*types.Array)
			if !ok {
				u.giveUp(s.Pos(), "range over pointer to non-array")
			}
			ln = c.idxConst(at.Len())
			elemAt = func(st *State, i string) Term {
				blk := u.loadCell(st, t.Elem(), x.S)
				return Term{S: fmt.Sprintf("(select %s %s)", blk.S, i), T: at.Elem()}
			}
		case *types.Basic:
			if _, _, isInt := intInfo(xt); isInt {
				// range over integer
				ln = u.toIdx(x)
				elemAt = nil
			} else {
				return u.execRangeAbstract(st, s, lc, n, label, keyVar, valVar)
			}
		}
		// hidden counter lives in the key variable (or a synthetic one)
		kv := keyVar
		if kv == nil {
			kv = types.NewVar(s.Pos(), u.pkg.Types, fmt.Sprintf("range%d", n), intT)
		}
		u.rangeVars[n] = kv
		kt := kv.Type()
		zero := u.zeroOf(kt)
		if u.info.Defs != nil && s.Tok == token.DEFINE || keyVar == nil {
			u.declareVar(st, kv, zero)
		} else {
			u.writeVar(st, kv, zero)
		}
		lnSaved := u.c.fresh("rangelen", c.idxSort())
		st.assume(eq(lnSaved, ln))
		idxOf := func(st *State) string { return u.toIdx(u.readVar(st, kv, s.Pos())) }
		implicitInv := func(st *State) string {
			i := idxOf(st)
			return and(c.idxLe(c.idxConst(0), i), c.idxLe(i, lnSaved))
		}
		// the implicit bound is assumed at the head via a synthetic invariant
		lc2c := *lc // every clause kind (entry / step / returns / exit#k too)
		lc2 := &lc2c
		return u.runLoopImplicit(st, lc2, n, label, s.Pos(), s.Body.Pos(), s.Body, implicitInv,
			func(st *State) (string, bool) { return c.idxLt(idxOf(st), lnSaved), true },
			func(st *State) *State {
				if valVar != nil && elemAt != nil {
					ev := elemAt(st, idxOf(st))
					u.assumeRange(st, ev)
					if s.Tok == token.DEFINE {
						u.declareVar(st, valVar, ev)
					} else {
						u.writeVar(st, valVar, ev)
					}
				}
				return u.execBlock(st, s.Body.List)
			},
			func(st *State) *State {
				cur := u.readVar(st, kv, s.Pos())
				nx := u.binop(st, token.ADD, cur, Term{S: "1", K: bigOne}, kt, s, false)
				nx.T = kt
				u.writeVar(st, kv, nx)
				return st
			}, []*types.Var{kv})
	case *types.Map:
		return u.execRangeMap(st, s, lc, n, label, keyVar, valVar, ut)
	case *types.Chan:
		return u.execRangeChan(st, s, lc, n, label, keyVar, ut)
	}
	return u.execRangeAbstract(st, s, lc, n, label, keyVar, valVar)
}

func isBlank(e ast.Expr) bool {
	id, ok := e.(*ast.Ident)
	return ok && id.Name == "_"
}

func (u *Unit) runLoopImplicit(st *State, lc *LoopContract, n int, label string, pos, bodyPos token.Pos, havocNode ast.Node, implicit func(*State) string,
	cond func(*State) (string, bool), body func(*State) *State, post func(*State) *State, extra []*types.Var) *State {
	// wrap: implicit invariant is established by construction (0 <= i <= len), assumed at head
	wrappedCond := func(st *State) (string, bool) {
		st.assume(implicit(st))
		return cond(st)
	}
	return u.runLoop(st, lc, n, label, pos, bodyPos, havocNode, wrappedCond, body, post, extra)
}

// execRangeMap: the body is proved for an arbitrary present key, in an arbitrary visiting order.
func (u *Unit) execRangeMap(st *State, s *ast.RangeStmt, lc *LoopContract, n int, label string, keyVar, valVar *types.Var, mt *types.Map) *State {
	m := u.eval(st, s.X)
	// ghost set of keys already visited (visitedN(k) in invariants): each present key is visited at most once
	ks := u.c.sortOf(mt.Key())
	vis := types.NewVar(s.Pos(), u.pkg.Types, fmt.Sprintf("visited%d", n), types.Typ[types.Bool])
	u.visitedVars[n] = vis
	st.vars[vis] = Term{S: fmt.Sprintf("((as const (Array %s Bool)) false)", ks), Spec: fmt.Sprintf("(Array %s Bool)", ks)}
	more := func(st *State) (string, bool) { return u.c.fresh("mapmore", "Bool"), true }
	// ghost vislensumN: sum of len(m[k]) over the keys visited so far (maps of slices, int mode)
	hl := u.lensumHeap(mt)
	var visLen *types.Var
	extra := []*types.Var{vis}
	if hl != "" {
		visLen = types.NewVar(s.Pos(), u.pkg.Types, fmt.Sprintf("vislensum%d", n), types.Typ[types.Int])
		if u.visLenVars == nil {
			u.visLenVars = map[int]*types.Var{}
		}
		u.visLenVars[n] = visLen
		st.vars[visLen] = Term{S: "0", Spec: "Int"}
		extra = append(extra, visLen)
	}
	bodyWritesMap := func() bool {
		hp, _ := u.mapHeaps(mt)
		all, some := u.loopHeapEffects(s.Body)
		return all || some[hp]
	}
	u.pendingExitHook = func(st *State) {
		// normal exit: if the body cannot write a map of this type, every present key has been visited (exactly once)
		hp, _ := u.mapHeaps(mt)
		if all, some := u.loopHeapEffects(s.Body); !all && !some[hp] {
			u.c.n++
			kq := fmt.Sprintf("k_q%d", u.c.n)
			cur := st.vars[vis]
			present := fmt.Sprintf("(select (select %s %s) %s)", u.heapRead(st, hp), m.S, kq)
			st.assume(fmt.Sprintf("(forall ((%s %s)) (! (=> %s (select %s %s)) :pattern (%s)))", kq, ks, present, cur.S, kq, present))
			if visLen != nil {
				st.assume(eq(st.vars[visLen].S, "(select "+u.heapRead(st, hl)+" "+m.S+")"))
			}
		}
	}
	return u.runLoop(st, lc, n, label, s.Pos(), s.Body.Pos(), s.Body, more,
		func(st *State) *State {
			k := u.freshOf(st, mt.Key(), "mapkey")
			v, present := u.mapLookup(st, m, k, mt)
			st.assume(present)
			if visLen != nil {
				cur := st.vars[visLen]
				nv := u.c.fresh("vislensum", "Int")
				st.assume(eq(nv, "(+ "+cur.S+" "+sLen(v.S)+")"))
				if !bodyWritesMap() {
					// a partial sum over distinct present keys never exceeds the total
					st.assume("(<= " + nv + " (select " + u.heapRead(st, hl) + " " + m.S + "))")
				}
				st.vars[visLen] = Term{S: nv, Spec: "Int"}
			}
			cur := st.vars[vis]
			st.assume(not(fmt.Sprintf("(select %s %s)", cur.S, k.S)))
			nv := u.c.fresh("visited", cur.Spec)
			st.assume(eq(nv, fmt.Sprintf("(store %s %s true)", cur.S, k.S)))
			st.vars[vis] = Term{S: nv, Spec: cur.Spec}
			if keyVar != nil {
				if s.Tok == token.DEFINE {
					u.declareVar(st, keyVar, k)
				} else {
					u.writeVar(st, keyVar, k)
				}
			}
			if valVar != nil {
				if s.Tok == token.DEFINE {
					u.declareVar(st, valVar, v)
				} else {
					u.writeVar(st, valVar, v)
				}
			}
			return u.execBlock(st, s.Body.List)
		},
		func(st *State) *State { return st }, extra)
}

// chanGhost declares the ghost sequence of values received from a channel until it is closed:
// chan.len(ch) >= 0 values chan.at(ch, 0), chan.at(ch, 1), ... (for an arbitrary finite sequence: all completion orders at once).
func (u *Unit) chanGhost(elem types.Type) (string, string) {
	es := u.c.sortOf(elem)
	at := "chan.at_" + sanitize(es)
	u.c.declareFun("chan.len", "(Int) "+u.c.idxSort())
	u.c.declareFun(at, "(Int "+u.c.idxSort()+") "+es)
	return "chan.len", at
}

// execRangeChan: `for v := range ch` receives chan.at(ch,0..len-1) in order and ends when the channel is closed and drained.
func (u *Unit) execRangeChan(st *State, s *ast.RangeStmt, lc *LoopContract, n int, label string, valVar *types.Var, ct *types.Chan) *State {
	c := u.c
	ch := u.eval(st, s.X)
	ln, at := u.chanGhost(ct.Elem())
	st.assume(c.idxLe(c.idxConst(0), "("+ln+" "+ch.S+")"))
	kv := types.NewVar(s.Pos(), u.pkg.Types, fmt.Sprintf("range%d", n), types.Typ[types.Int])
	u.rangeVars[n] = kv
	u.declareVar(st, kv, u.zeroOf(kv.Type()))
	u.c.note("range over channel %s: modelled as an arbitrary finite sequence of received values (trusted: the channel is eventually closed)", u.exprText(s.X))
	idxOf := func(st *State) string { return u.toIdx(u.readVar(st, kv, s.Pos())) }
	implicit := func(st *State) string {
		i := idxOf(st)
		return and(c.idxLe(c.idxConst(0), i), c.idxLe(i, "("+ln+" "+ch.S+")"))
	}
	return u.runLoopImplicit(st, lc, n, label, s.Pos(), s.Body.Pos(), s.Body, implicit,
		func(st *State) (string, bool) { return c.idxLt(idxOf(st), "("+ln+" "+ch.S+")"), true },
		func(st *State) *State {
			if valVar != nil {
				ev := Term{S: fmt.Sprintf("(%s %s %s)", at, ch.S, idxOf(st)), T: ct.Elem()}
				u.assumeRange(st, ev)
				if s.Tok == token.DEFINE {
					u.declareVar(st, valVar, ev)
				} else {
					u.writeVar(st, valVar, ev)
				}
			}
			return u.execBlock(st, s.Body.List)
		},
		func(st *State) *State {
			cur := u.readVar(st, kv, s.Pos())
			nx := u.binop(st, token.ADD, cur, Term{S: "1", K: bigOne}, kv.Type(), s, false)
			nx.T = kv.Type()
			u.writeVar(st, kv, nx)
			return st
		}, []*types.Var{kv})
}

func (u *Unit) execRangeAbstract(st *State, s *ast.RangeStmt, lc *LoopContract, n int, label string, keyVar, valVar *types.Var) *State {
	u.eval(st, s.X)
	u.unsupportedf(s.Pos(), "range over %s: iteration values arbitrary", u.typeOf(s.X))
	more := func(st *State) (string, bool) { return u.c.fresh("more", "Bool"), true }
	return u.runLoop(st, lc, n, label, s.Pos(), s.Body.Pos(), s.Body, more,
		func(st *State) *State {
			if keyVar != nil {
				u.declareVar(st, keyVar, u.freshOf(st, keyVar.Type(), keyVar.Name()))
			}
			if valVar != nil {
				u.declareVar(st, valVar, u.freshOf(st, valVar.Type(), valVar.Name()))
			}
			return u.execBlock(st, s.Body.List)
		},
		func(st *State) *State { return st }, nil)
}

// ---------- switch / select ----------

func (u *Unit) execSwitch(st *State, s *ast.SwitchStmt, label string) *State {
	if s.Init != nil {
		st = u.exec(st, s.Init)
		if st == nil {
			return nil
		}
	}
	var tag *Term
	if s.Tag != nil {
		t := u.eval(st, s.Tag)
		tag = &t
	}
	base := st
	lctx := &loopCtx{label: label, isSwitch: true}
	u.loopStack = append(u.loopStack, lctx)
	var outs []*State
	rest := st.clone()
	var deflt *ast.CaseClause
	for _, cc := range s.Body.List {
		cl := cc.(*ast.CaseClause)
		if cl.List == nil {
			deflt = cl
			continue
		}
		var conds []string
		for _, e := range cl.List {
			if tag != nil {
				v := u.evalAs(rest, e, tag.T)
				conds = append(conds, u.binop(rest, token.EQL, *tag, v, types.Typ[types.Bool], e, false).S)
			} else {
				conds = append(conds, u.eval(rest, e).S)
			}
		}
		c := or(conds...)
		br := rest.clone()
		br.assume(c)
		for _, st2 := range cl.Body {
			if b, ok := st2.(*ast.BranchStmt); ok && b.Tok == token.FALLTHROUGH {
				u.giveUp(b.Pos(), "fallthrough not supported")
			}
		}
		outs = append(outs, u.execBlock(br, cl.Body))
		rest.assume(not(c))
	}
	if deflt != nil {
		outs = append(outs, u.execBlock(rest, deflt.Body))
	} else {
		outs = append(outs, rest)
	}
	u.loopStack = u.loopStack[:len(u.loopStack)-1]
	outs = append(outs, lctx.breaks...)
	return u.merge(base, outs)
}

func (u *Unit) execTypeSwitch(st *State, s *ast.TypeSwitchStmt) *State {
	if s.Init != nil {
		st = u.exec(st, s.Init)
		if st == nil {
			return nil
		}
	}
	var x ast.Expr
	var bindName *ast.Ident
	switch a := s.Assign.(type) {
	case *ast.ExprStmt:
		x = a.X.(*ast.TypeAssertExpr).X
	case *ast.AssignStmt:
		x = a.Rhs[0].(*ast.TypeAssertExpr).X
		bindName = a.Lhs[0].(*ast.Ident)
	}
	_ = bindName
	xv := u.eval(st, x)
	base := st
	lctx := &loopCtx{isSwitch: true}
	u.loopStack = append(u.loopStack, lctx)
	var outs []*State
	rest := st.clone()
	var deflt *ast.CaseClause
	isAny := isEmptyInterface(xv.T)
	for _, cc := range s.Body.List {
		cl := cc.(*ast.CaseClause)
		if cl.List == nil {
			deflt = cl
			continue
		}
		var conds []string
		var single types.Type
		for _, e := range cl.List {
			t := u.typeOf(e)
			if t == nil {
				continue
			}
			if b, ok := t.(*types.Basic); ok && b.Kind() == types.UntypedNil {
				if isAny {
					u.c.declareFun("any.nil", "() Any")
					rest.assume(eq("(any.tag any.nil)", "0"))
					conds = append(conds, eq("(any.tag "+xv.S+")", "0"))
				} else {
					conds = append(conds, eq(xv.S, "0"))
				}
				continue
			}
			if isAny && !types.IsInterface(t) {
				conds = append(conds, eq("(any.tag "+xv.S+")", fmt.Sprint(u.typeTag(t))))
			} else {
				conds = append(conds, u.c.fresh("tsw", "Bool"))
			}
			single = t
		}
		c := or(conds...)
		br := rest.clone()
		br.assume(c)
		if v, ok := u.info.Implicits[cl].(*types.Var); ok {
			if len(cl.List) == 1 && single != nil && isAny && !types.IsInterface(single) {
				val := Term{S: fmt.Sprintf("(%s %s)", u.anyPayloadFn(single), xv.S), T: single}
				u.assumeRange(br, val)
				u.declareVar(br, v, val)
			} else if len(cl.List) == 1 && single != nil {
				u.declareVar(br, v, u.freshOf(br, single, v.Name()))
			} else {
				u.declareVar(br, v, xv)
			}
		}
		outs = append(outs, u.execBlock(br, cl.Body))
		rest.assume(not(c))
	}
	if deflt != nil {
		if v, ok := u.info.Implicits[deflt].(*types.Var); ok {
			u.declareVar(rest, v, xv)
		}
		outs = append(outs, u.execBlock(rest, deflt.Body))
	} else {
		outs = append(outs, rest)
	}
	u.loopStack = u.loopStack[:len(u.loopStack)-1]
	outs = append(outs, lctx.breaks...)
	return u.merge(base, outs)
}

func (u *Unit) execSelect(st *State, s *ast.SelectStmt) *State {
	u.unsupportedf(s.Pos(), "select: every case is a nondeterministic branch; received values arbitrary")
	base := st
	lctx := &loopCtx{isSwitch: true}
	u.loopStack = append(u.loopStack, lctx)
	var outs []*State
	rest := st.clone()
	for _, cc := range s.Body.List {
		cl := cc.(*ast.CommClause)
		c := u.c.fresh("sel", "Bool")
		br := rest.clone()
		br.assume(c)
		if cl.Comm != nil {
			br = u.exec(br, cl.Comm)
		}
		if br != nil {
			outs = append(outs, u.execBlock(br, cl.Body))
		}
		rest.assume(not(c))
	}
	// if no case is chosen the select blocks forever (or default ran above): drop `rest`
	u.loopStack = u.loopStack[:len(u.loopStack)-1]
	outs = append(outs, lctx.breaks...)
	return u.merge(base, outs)
}

// sortVars orders variables deterministically.
func sortVars(vs []*types.Var) {
	sort.Slice(vs, func(i, j int) bool { return vs[i].Pos() < vs[j].Pos() })
}

// ---------- inline execution of function literals ----------

type inlineFrame struct {
	results []*types.Var
	rets    []*State
	defers  []*ast.CallExpr
}

// runInlineDefers executes the deferred calls registered on this path of an inlined body (LIFO).
func (u *Unit) runInlineDefers(st *State, fr *inlineFrame) {
	for i := len(fr.defers) - 1; i >= 0; i-- {
		if st.ghost[fmt.Sprintf("idefer#%p#%d", fr, i)] == "" {
			continue
		}
		call := fr.defers[i]
		if fl, isLit := call.Fun.(*ast.FuncLit); isLit {
			if u.inlinableDeferLit(call, fl) {
				saved := u.inlineStack
				u.inlineStack = append([]*inlineFrame(nil), u.inlineStack[:len(u.inlineStack)-1]...) // copy: the callee pushes frames
				u.execLitInline(st, call, fl)
				u.inlineStack = saved
				continue
			}
			u.unsupportedf(call.Pos(), "deferred function literal abstracted (heaps havoced)")
			u.havocAllHeaps(st)
			continue
		}
		// the frame must not be active while its own defers run
		saved := u.inlineStack
		u.inlineStack = append([]*inlineFrame(nil), u.inlineStack[:len(u.inlineStack)-1]...) // copy: the callee may push frames
		u.eval(st, call)
		u.inlineStack = saved
	}
}

func (u *Unit) inlineReturn(st *State, s *ast.ReturnStmt) {
	fr := u.inlineStack[len(u.inlineStack)-1]
	if len(s.Results) > 0 {
		if len(s.Results) == 1 && len(fr.results) > 1 {
			t := u.eval(st, s.Results[0])
			if t.IsTuple() {
				for i, rv := range fr.results {
					if i < len(t.Tuple) {
						u.writeVar(st, rv, u.coerce(st, t.Tuple[i], rv.Type()))
					}
				}
			}
		} else {
			if len(s.Results) != len(fr.results) {
				u.giveUp(s.Pos(), "return with %d values inside a literal frame with %d results (frame mismatch; %d frames, loops %d)", len(s.Results), len(fr.results), len(u.inlineStack), len(u.loopStack))
			}
			var vals []Term
			for i, r := range s.Results {
				vals = append(vals, u.evalAs(st, r, fr.results[i].Type()))
			}
			for i, rv := range fr.results {
				u.writeVar(st, rv, vals[i])
			}
		}
	}
	if u.isDead(st) {
		return
	}
	u.runInlineDefers(st, fr)
	fr.rets = append(fr.rets, st)
}

// inlinableDeferLit: a deferred `func() { ... }()` without arguments (arguments would have to be evaluated at the defer
// statement), without recover() and without defers of its own is executed at the function exits.
func (u *Unit) inlinableDeferLit(call *ast.CallExpr, fl *ast.FuncLit) bool {
	if len(call.Args) != 0 || fl.Type.Params.NumFields() != 0 {
		return false
	}
	ok := true
	ast.Inspect(fl.Body, func(n ast.Node) bool {
		switch x := n.(type) {
		case *ast.DeferStmt, *ast.GoStmt:
			ok = false
		case *ast.CallExpr:
			if id, isId := ast.Unparen(x.Fun).(*ast.Ident); isId && id.Name == "recover" {
				if _, isB := u.info.Uses[id].(*types.Builtin); isB {
					ok = false
				}
			}
		}
		return ok
	})
	return ok
}

// resync re-applies the frame of the goroutines spawned so far (`go f(args)` with a contracted f): under the data-race
// freedom assumption the parent can observe their writes only after a synchronisation operation, so the spawned
// functions' modifies targets are havoced again at channel operations, lock operations, WaitGroup.Wait and returns.
func (u *Unit) resync(st *State) {
	for _, f := range u.spawned {
		f(st)
	}
	u.havocClosureVars(st)
}

// havocClosureVars: local variables assigned inside escaping closures get arbitrary values (the closure may have run).
func (u *Unit) havocClosureVars(st *State) {
	if len(u.closureWritten) == 0 || st == nil {
		return
	}
	var vs []*types.Var
	for v := range u.closureWritten {
		vs = append(vs, v)
	}
	sortVars(vs)
	for _, v := range vs {
		cur, ok := st.vars[v]
		if !ok {
			continue
		}
		if u.boxed[v] {
			u.storeCell(st, v.Type(), cur.S, u.freshOf(st, v.Type(), v.Name()+"_cw").S)
			continue
		}
		st.vars[v] = u.freshOf(st, v.Type(), v.Name()+"_cw")
	}
}

// execLitInline runs the body of a function literal at its call site (same verification unit, no contract needed).
func (u *Unit) execLitInline(st *State, e *ast.CallExpr, fl *ast.FuncLit) Term {
	sig, _ := u.typeOf(fl).(*types.Signature)
	if sig == nil || len(u.inlineStack) > 4 {
		return u.abstractExpr(st, e, "function literal")
	}
	// arguments
	var args []Term
	if len(e.Args) == 1 && sig.Params().Len() > 1 {
		t := u.eval(st, e.Args[0])
		args = t.Tuple
	} else {
		for i, a := range e.Args {
			var pt types.Type
			if i < sig.Params().Len() {
				pt = sig.Params().At(i).Type()
			}
			if sig.Variadic() && i >= sig.Params().Len()-1 {
				return u.abstractExpr(st, e, "variadic function literal")
			}
			args = append(args, u.evalAs(st, a, pt))
		}
	}
	k := 0
	for _, f := range fl.Type.Params.List {
		for _, n := range f.Names {
			if v, ok := u.info.Defs[n].(*types.Var); ok && k < len(args) {
				u.declareVar(st, v, u.coerce(st, args[k], v.Type()))
			}
			k++
		}
		if len(f.Names) == 0 {
			k++
		}
	}
	fr := &inlineFrame{}
	if fl.Type.Results != nil {
		idx := 0
		for _, f := range fl.Type.Results.List {
			if len(f.Names) == 0 {
				rv := types.NewVar(fl.Pos(), u.pkg.Types, fmt.Sprintf("litret%d_%d", len(u.inlineStack), idx), sig.Results().At(idx).Type())
				fr.results = append(fr.results, rv)
				u.declareVar(st, rv, u.zeroOf(rv.Type()))
				idx++
				continue
			}
			for _, n := range f.Names {
				rv, _ := u.info.Defs[n].(*types.Var)
				if rv == nil {
					rv = types.NewVar(fl.Pos(), u.pkg.Types, fmt.Sprintf("litret%d_%d", len(u.inlineStack), idx), sig.Results().At(idx).Type())
				}
				fr.results = append(fr.results, rv)
				u.declareVar(st, rv, u.zeroOf(rv.Type()))
				idx++
			}
		}
	}
	base := st.clone()
	u.inlineStack = append(u.inlineStack, fr)
	savedLoops := u.loopStack
	u.loopStack = nil
	work := st.clone()
	end := u.execBlock(work, fl.Body.List)
	u.loopStack = savedLoops
	u.inlineStack = u.inlineStack[:len(u.inlineStack)-1]
	outs := append([]*State{}, fr.rets...)
	if end != nil && sig.Results().Len() == 0 {
		u.inlineStack = append(u.inlineStack, fr)
		u.runInlineDefers(end, fr)
		u.inlineStack = u.inlineStack[:len(u.inlineStack)-1]
		outs = append(outs, end)
	}
	merged := u.merge(base, outs)
	if merged == nil {
		st.assume("false") // the literal never returns normally
		return Term{Tuple: []Term{}}
	}
	*st = *merged
	var rs []Term
	for _, rv := range fr.results {
		rs = append(rs, u.readVar(st, rv, fl.Pos()))
	}
	if rs == nil {
		rs = []Term{}
	}
	return resultTerm(rs)
}

// execDeclInline runs the body of a same-package function declared `inline` at the call site (arguments bound,
// function-literal arguments stay callable). Used for small private helpers that only make sense with their caller.
func (u *Unit) execDeclInline(st *State, e *ast.CallExpr, callee *types.Func, fd *ast.FuncDecl, recv *Term, args []Term) Term {
	sig := callee.Type().(*types.Signature)
	if len(u.inlineStack) > 4 {
		return u.abstractExpr(st, e, "inline depth")
	}
	if fd.Recv != nil && len(fd.Recv.List) == 1 && len(fd.Recv.List[0].Names) == 1 && recv != nil {
		if v, ok := u.info.Defs[fd.Recv.List[0].Names[0]].(*types.Var); ok {
			u.declareVar(st, v, u.coerce(st, *recv, v.Type()))
		}
	}
	k := 0
	for _, f := range fd.Type.Params.List {
		for _, n := range f.Names {
			if v, ok := u.info.Defs[n].(*types.Var); ok && k < len(args) {
				u.declareVar(st, v, u.coerce(st, args[k], v.Type()))
				if k < len(e.Args) {
					if fl, isLit := ast.Unparen(e.Args[k]).(*ast.FuncLit); isLit {
						u.litOfVar[v] = fl
					}
				}
			}
			k++
		}
		if len(f.Names) == 0 {
			k++
		}
	}
	fr := &inlineFrame{}
	if fd.Type.Results != nil {
		idx := 0
		for _, f := range fd.Type.Results.List {
			names := f.Names
			if len(names) == 0 {
				names = []*ast.Ident{nil}
			}
			for _, n := range names {
				var rv *types.Var
				if n != nil {
					rv, _ = u.info.Defs[n].(*types.Var)
				}
				if rv == nil {
					rv = types.NewVar(fd.Pos(), u.pkg.Types, fmt.Sprintf("inlret%d_%d", len(u.inlineStack), idx), sig.Results().At(idx).Type())
				}
				fr.results = append(fr.results, rv)
				u.declareVar(st, rv, u.zeroOf(rv.Type()))
				idx++
			}
		}
	}
	base := st.clone()
	u.inlineStack = append(u.inlineStack, fr)
	savedLoops := u.loopStack
	u.loopStack = nil
	work := st.clone()
	end := u.execBlock(work, fd.Body.List)
	u.loopStack = savedLoops
	u.inlineStack = u.inlineStack[:len(u.inlineStack)-1]
	outs := append([]*State{}, fr.rets...)
	if end != nil && sig.Results().Len() == 0 {
		u.inlineStack = append(u.inlineStack, fr)
		u.runInlineDefers(end, fr)
		u.inlineStack = u.inlineStack[:len(u.inlineStack)-1]
		outs = append(outs, end)
	}
	merged := u.merge(base, outs)
	if merged == nil {
		st.assume("false")
		return resultTerm(u.freshResults(st, sig, "dead"))
	}
	*st = *merged
	var rs []Term
	for _, rv := range fr.results {
		rs = append(rs, u.readVar(st, rv, fd.Pos()))
	}
	if rs == nil {
		rs = []Term{}
	}
	if ct, _ := u.eng.contractFor(callee); ct != nil && ct.Inline {
		u.c.note("call of %s executed inline (contract directive `inline`)", callee.Name())
	} else {
		u.c.note("call of %s executed inline (function added after the contracts were written, baseline bindings)", callee.Name())
	}
	return resultTerm(rs)
}
