#!/bin/bash
# usage: run_all.sh [ids...]   runs the quick checks one after the other and prints one summary line each
cd /verif
IDS="$@"
bin/vcgo bindings --check | tail -1
[ -z "$IDS" ] && IDS=$(ls props | sed 's/.json//' | tr '\n' ' ')
for id in $IDS; do
  s=$(date +%s)
  bin/vcgo check $id > /var/tmp/check_$id.log 2>&1
  rc=$?
  echo "$id rc=$rc $(( $(date +%s)-s ))s $(tail -1 /var/tmp/check_$id.log | cut -c1-160)"
  grep -E "VIOLATION|BROKEN|UNDECIDED" /var/tmp/check_$id.log | sed 's/.*obligation=//' | cut -c1-200 | head -8
done
