package main

// C07 handler replay: JSON-RPC getSignaturesForAddress (multiepoch-getSignaturesForAddress.go) against THREE real tiny epochs.
//
// The fixture builder below is the one of /verif/replay/manual/ct-c19/replay_test.go (a hand-written epoch CAR + indexes +
// gsfa index written with the repository's writers), made parametric in the epoch number; three epochs (0, 1, 2) are built
// with it and put into one MultiEpoch. Address A has 4 transactions in every epoch.
// Property (C07): the response lists H = (epoch 2 newest-first) ++ (epoch 1 newest-first) ++ (epoch 0 newest-first), in
// exactly that order. The handler assembles the response by ranging over a Go map keyed by epoch.
//
// Run (no file of /repo is modified; the test is overlaid into package main):
//   cd /repo && go test -vet=off -count=1 -overlay /verif/replay/manual/ct-c07/overlay_handler.json -run 'TestReplayC07Handler' -v .
// With the fix:
//   cd /repo && go test -vet=off -count=1 -overlay /verif/replay/manual/ct-c07/overlay_handler_fixed.json -run 'TestReplayC07Handler' -v .

import (
	"encoding/json"

	"bytes"
	"context"
	"encoding/binary"
	"fmt"
	"github.com/sourcegraph/jsonrpc2"
	"github.com/valyala/fasthttp"
	"os"
	"path/filepath"
	"strings"
	"sync"
	"testing"

	"github.com/allegro/bigcache/v3"
	bin "github.com/gagliardetto/binary"
	"github.com/gagliardetto/solana-go"
	"github.com/ipfs/go-cid"
	"github.com/ipld/go-ipld-prime/datamodel"
	cidlink "github.com/ipld/go-ipld-prime/linking/cid"
	"github.com/multiformats/go-multihash"
	"github.com/rpcpool/yellowstone-faithful/blocktimeindex"
	"github.com/rpcpool/yellowstone-faithful/gsfa"
	hugecache "github.com/rpcpool/yellowstone-faithful/huge-cache"
	"github.com/rpcpool/yellowstone-faithful/indexes"
	"github.com/rpcpool/yellowstone-faithful/indexmeta"
	"github.com/rpcpool/yellowstone-faithful/ipld/ipldbindcode"
	old_faithful_grpc "github.com/rpcpool/yellowstone-faithful/old-faithful-proto/old-faithful-grpc"
	"github.com/rpcpool/yellowstone-faithful/third_party/solana_proto/confirmed_block"
	"github.com/rpcpool/yellowstone-faithful/tooling"
	"google.golang.org/grpc"
	"google.golang.org/protobuf/proto"
)

// (ct-c07) the fixture builder is the one of /verif/replay/manual/ct-c19/replay_test.go, made epoch-parametric
var c07hEpoch = uint64(0)

func c07hKey(tag byte) solana.PublicKey {
	var k solana.PublicKey
	for i := range k {
		k[i] = tag
	}
	return k
}

var (
	c07hA = c07hKey(0xA1)
	c07hB = c07hKey(0xB2)
	c07hC = c07hKey(0xC3)
	c07hD = c07hKey(0xD4)
	c07hE = c07hKey(0xE5)
	c07hZ = c07hKey(0x5A) // mentioned by no transaction
)

// one archived transaction of the fixture
type c07hTx struct {
	slot, pos    uint64
	vote, failed bool
	keys         []solana.PublicKey // all account keys of the message
	sig          solana.Signature
	label        string
	offset, size uint64 // CAR section
}

func (x *c07hTx) has(k solana.PublicKey) bool {
	for _, kk := range x.keys {
		if kk == k {
			return true
		}
	}
	return false
}

type c07hTxSpec struct {
	vote, failed bool
	mention      []solana.PublicKey
	name         string
}

type c07hBlockSpec struct {
	slot, parent uint64
	entries      [][]c07hTxSpec
}

type c07hFixture struct {
	epoch  *Epoch
	multi  *MultiEpoch
	txs    []*c07hTx // in (slot, pos) order
	bySig  map[solana.Signature]*c07hTx
	blocks []uint64
}

func c07hCidOf(t *testing.T, data []byte) cid.Cid {
	t.Helper()
	c, err := cid.Prefix{Version: 1, Codec: cid.DagCBOR, MhType: multihash.SHA2_256, MhLength: -1}.Sum(data)
	if err != nil {
		t.Fatal(err)
	}
	return c
}

func c07hSig(i int) solana.Signature {
	var s solana.Signature
	for k := 0; k < 8; k++ {
		binary.LittleEndian.PutUint64(s[k*8:], (uint64(i+1)+1000003*c07hEpoch)*0x9E3779B97F4A7C15+uint64(k)*0xD1B54A32D192ED03+1)
	}
	return s
}

// a well-formed legacy transaction: either a simple vote (one instruction of the Vote program, one signature) or a
// one-instruction System-program transaction mentioning the given accounts
func c07hTxBytes(t *testing.T, n int, spec c07hTxSpec) ([]byte, solana.Signature, []solana.PublicKey) {
	t.Helper()
	var payer solana.PublicKey
	payer[0] = 0x77
	binary.LittleEndian.PutUint64(payer[8:], uint64(n)+1)
	sig := c07hSig(n)
	var keys solana.PublicKeySlice
	var ix solana.CompiledInstruction
	if spec.vote {
		var voteAcct solana.PublicKey
		voteAcct[0] = 0x78
		binary.LittleEndian.PutUint64(voteAcct[8:], uint64(n)+1)
		keys = solana.PublicKeySlice{payer, voteAcct, solana.VoteProgramID}
		ix = solana.CompiledInstruction{ProgramIDIndex: 2, Accounts: []uint16{1, 0}, Data: []byte{12, 0, 0, 0}}
	} else {
		keys = append(solana.PublicKeySlice{payer}, spec.mention...)
		keys = append(keys, solana.SystemProgramID)
		accs := []uint16{0}
		for i := range spec.mention {
			accs = append(accs, uint16(i+1))
		}
		ix = solana.CompiledInstruction{ProgramIDIndex: uint16(len(keys) - 1), Accounts: accs, Data: []byte{2, 0, 0, 0, 1, 0, 0, 0, 0, 0, 0, 0}}
	}
	tx := &solana.Transaction{
		Signatures: []solana.Signature{sig},
		Message: solana.Message{
			Header:          solana.MessageHeader{NumRequiredSignatures: 1, NumReadonlyUnsignedAccounts: 1},
			AccountKeys:     keys,
			RecentBlockhash: solana.Hash{1, 2, 3},
			Instructions:    []solana.CompiledInstruction{ix},
		},
	}
	b, err := tx.MarshalBinary()
	if err != nil {
		t.Fatal(err)
	}
	return b, sig, keys
}

// zstd(protobuf TransactionStatusMeta), as stored in the Metadata frame of a Transaction node
func c07hMetaBytes(t *testing.T, failed bool) []byte {
	t.Helper()
	m := &confirmed_block.TransactionStatusMeta{Fee: 5000, PreBalances: []uint64{10000, 1}, PostBalances: []uint64{5000, 1}}
	if failed {
		// bincode TransactionError::InstructionError(0, InstructionError::Custom(1))
		m.Err = &confirmed_block.TransactionError{Err: []byte{8, 0, 0, 0, 0, 25, 0, 0, 0, 1, 0, 0, 0}}
	}
	raw, err := proto.Marshal(m)
	if err != nil {
		t.Fatal(err)
	}
	z, err := tooling.CompressZstd(raw)
	if err != nil {
		t.Fatal(err)
	}
	return z
}

func c07hSpecs() []c07hBlockSpec {
	pk := func(ks ...solana.PublicKey) []solana.PublicKey { return ks }
	vote := c07hTxSpec{vote: true, name: "vote"}
	many := func(n int, k solana.PublicKey, name string) []c07hTxSpec {
		out := make([]c07hTxSpec, n)
		for i := range out {
			out[i] = c07hTxSpec{mention: pk(k), name: name}
		}
		return out
	}
	return []c07hBlockSpec{
		{slot: 1000, parent: 0, entries: [][]c07hTxSpec{{vote, {mention: pk(c07hA), name: "A"}}, {{mention: pk(c07hB), name: "B"}}}},
		{slot: 1001, parent: 1000, entries: [][]c07hTxSpec{{vote, {mention: pk(c07hA, c07hB), name: "A+B"}}}},
		{slot: 1003, parent: 1001, entries: [][]c07hTxSpec{{{mention: pk(c07hA, c07hC), name: "A+C"}}, {vote, {mention: pk(c07hC), failed: true, name: "C!failed"}}}},
		{slot: 1004, parent: 1003, entries: [][]c07hTxSpec{{vote}}},
		{slot: 1007, parent: 1004, entries: [][]c07hTxSpec{{{mention: pk(c07hA), name: "A"}, {mention: pk(c07hB, c07hC), name: "B+C"}, vote}}},
		{slot: 2000, parent: 1007, entries: [][]c07hTxSpec{many(130, c07hD, "D")}},
		{slot: 2050, parent: 2000, entries: [][]c07hTxSpec{many(3, c07hE, "E")}},
		{slot: 2100, parent: 2050, entries: [][]c07hTxSpec{many(120, c07hE, "E")}},
	}
}

func c07hBuild(t *testing.T, withGsfa bool) *c07hFixture {
	t.Helper()
	dir := t.TempDir()
	ctx := context.Background()
	fx := &c07hFixture{bySig: map[solana.Signature]*c07hTx{}}

	// ---- CAR file (v1 layout: header section, then uvarint(len(cid)+len(data)) | cid | data sections) ----
	type sec struct {
		c            cid.Cid
		offset, size uint64
	}
	var car bytes.Buffer
	var allSecs []sec
	writeSection := func(data []byte) sec {
		c := c07hCidOf(t, data)
		off := uint64(car.Len())
		var lb [binary.MaxVarintLen64]byte
		n := binary.PutUvarint(lb[:], uint64(len(c.Bytes())+len(data)))
		car.Write(lb[:n])
		car.Write(c.Bytes())
		car.Write(data)
		s := sec{c: c, offset: off, size: uint64(car.Len()) - off}
		allSecs = append(allSecs, s)
		return s
	}
	{
		hdr := []byte("\xa2eroots\x81\xd8\x2a\x45\x00\x01\x55\x00\x00gversion\x01") // {roots:[bafkqaaa], version:1}
		var lb [binary.MaxVarintLen64]byte
		n := binary.PutUvarint(lb[:], uint64(len(hdr)))
		car.Write(lb[:n])
		car.Write(hdr)
	}
	headerSize := uint64(car.Len())

	blockCids := map[uint64]cid.Cid{}
	sigCids := map[solana.Signature]cid.Cid{}
	metaOK, metaFailed := c07hMetaBytes(t, false), c07hMetaBytes(t, true)
	txCounter := 0
	for _, bs := range c07hSpecs() {
		pos := 0
		var entryLinks ipldbindcode.List__Link
		for ei, entry := range bs.entries {
			var txLinks ipldbindcode.List__Link
			for _, spec := range entry {
				raw, sig, keys := c07hTxBytes(t, txCounter, spec)
				txCounter++
				meta := metaOK
				if spec.failed {
					meta = metaFailed
				}
				p := pos
				pp := &p
				node := &ipldbindcode.Transaction{
					Kind:     0,
					Data:     ipldbindcode.DataFrame{Kind: 6, Data: raw},
					Metadata: ipldbindcode.DataFrame{Kind: 6, Data: meta},
					Slot:     int(bs.slot),
					Index:    &pp,
				}
				data, err := node.MarshalCBOR()
				if err != nil {
					t.Fatal(err)
				}
				s := writeSection(data)
				x := &c07hTx{
					slot: bs.slot, pos: uint64(pos), vote: spec.vote, failed: spec.failed, keys: keys, sig: sig,
					label: fmt.Sprintf("%d/%d:%s", bs.slot, pos, spec.name), offset: s.offset, size: s.size,
				}
				fx.txs = append(fx.txs, x)
				fx.bySig[sig] = x
				sigCids[sig] = s.c
				txLinks = append(txLinks, datamodel.Link(cidlink.Link{Cid: s.c}))
				pos++
			}
			h := make([]byte, 32)
			binary.LittleEndian.PutUint64(h, bs.slot)
			h[31] = byte(ei + 1)
			en := &ipldbindcode.Entry{Kind: 1, NumHashes: 1, Hash: h, Transactions: txLinks}
			data, err := en.MarshalCBOR()
			if err != nil {
				t.Fatal(err)
			}
			s := writeSection(data)
			entryLinks = append(entryLinks, datamodel.Link(cidlink.Link{Cid: s.c}))
		}
		blk := &ipldbindcode.Block{
			Kind:    2,
			Slot:    int(bs.slot),
			Entries: entryLinks,
			Meta:    ipldbindcode.SlotMeta{Parent_slot: int(bs.parent), Blocktime: 1600000000 + int(bs.slot)},
			Rewards: cidlink.Link{Cid: DummyCID},
		}
		data, err := blk.MarshalCBOR()
		if err != nil {
			t.Fatal(err)
		}
		s := writeSection(data)
		blockCids[bs.slot] = s.c
		fx.blocks = append(fx.blocks, bs.slot)
	}
	carPath := filepath.Join(dir, "epoch-0.car")
	if err := os.WriteFile(carPath, car.Bytes(), 0o644); err != nil {
		t.Fatal(err)
	}

	// ---- indexes, with the repository's writers ----
	root := DummyCID
	var slotIdxPath, sigIdxPath, c2oPath string
	{
		w, err := indexes.NewWriter_SlotToCid(c07hEpoch, root, indexes.NetworkMainnet, "", uint64(len(blockCids)))
		if err != nil {
			t.Fatal(err)
		}
		for slot, c := range blockCids {
			if err := w.Put(slot, c); err != nil {
				t.Fatal(err)
			}
		}
		if err := w.Seal(ctx, dir); err != nil {
			t.Fatal(err)
		}
		slotIdxPath = w.GetFilepath()
		w.Close()
	}
	{
		w, err := indexes.NewWriter_SigToCid(c07hEpoch, root, indexes.NetworkMainnet, "", uint64(len(sigCids)))
		if err != nil {
			t.Fatal(err)
		}
		for sig, c := range sigCids {
			if err := w.Put(sig, c); err != nil {
				t.Fatal(err)
			}
		}
		if err := w.Seal(ctx, dir); err != nil {
			t.Fatal(err)
		}
		sigIdxPath = w.GetFilepath()
		w.Close()
	}
	{
		w, err := indexes.NewWriter_CidToOffsetAndSize(c07hEpoch, root, indexes.NetworkMainnet, "", uint64(len(allSecs)))
		if err != nil {
			t.Fatal(err)
		}
		for _, s := range allSecs {
			if err := w.Put(s.c, s.offset, s.size); err != nil {
				t.Fatal(err)
			}
		}
		if err := w.Seal(ctx, dir); err != nil {
			t.Fatal(err)
		}
		c2oPath = w.GetFilepath()
		w.Close()
	}

	// ---- gsfa index, with the repository's writer (transactions pushed in CAR order, as the indexer does) ----
	var gsfaReader *gsfa.GsfaReader
	if withGsfa {
		gsfaDir := filepath.Join(dir, "gsfa")
		meta := indexmeta.Meta{}
		if err := meta.AddUint64(indexmeta.MetadataKey_Epoch, c07hEpoch); err != nil {
			t.Fatal(err)
		}
		if err := meta.AddCid(indexmeta.MetadataKey_RootCid, root); err != nil {
			t.Fatal(err)
		}
		if err := meta.AddString(indexmeta.MetadataKey_Network, string(indexes.NetworkMainnet)); err != nil {
			t.Fatal(err)
		}
		w, err := gsfa.NewGsfaWriter(gsfaDir, meta, c07hEpoch, root, indexes.NetworkMainnet, t.TempDir())
		if err != nil {
			t.Fatal(err)
		}
		for _, x := range fx.txs {
			if err := w.Push(x.offset, x.size, x.slot, solana.PublicKeySlice(x.keys), true, !x.failed, x.vote); err != nil {
				t.Fatal(err)
			}
		}
		if err := w.Close(); err != nil {
			t.Fatal(err)
		}
		gsfaReader, err = gsfa.NewGsfaReader(gsfaDir)
		if err != nil {
			t.Fatal(err)
		}
		t.Cleanup(func() { gsfaReader.Close() })
	}

	// ---- the Epoch ----
	slotToCid, err := indexes.Open_SlotToCid(slotIdxPath)
	if err != nil {
		t.Fatal(err)
	}
	sigToCid, err := indexes.Open_SigToCid(sigIdxPath)
	if err != nil {
		t.Fatal(err)
	}
	cidToOas, err := indexes.Open_CidToOffsetAndSize(c2oPath)
	if err != nil {
		t.Fatal(err)
	}
	carFile, err := os.Open(carPath)
	if err != nil {
		t.Fatal(err)
	}
	cache, err := hugecache.NewWithConfig(ctx, bigcache.DefaultConfig(60e9))
	if err != nil {
		t.Fatal(err)
	}
	bti := blocktimeindex.NewForEpoch(c07hEpoch)
	for _, slot := range fx.blocks {
		_ = bti.Set(slot, 1600000000+int64(slot)) // (slots of the fixture are epoch-0 slots; block times are not used here)
	}
	cfg := &Config{}
	cfg.Indexes.CidToOffsetAndSize.URI = URI(c2oPath)
	fx.epoch = &Epoch{
		epoch:                   c07hEpoch,
		config:                  cfg,
		remoteCarReader:         carFile,
		carHeaderSize:           headerSize,
		rootCid:                 root,
		cidToOffsetAndSizeIndex: cidToOas,
		slotToCidIndex:          slotToCid,
		sigToCidIndex:           sigToCid,
		blocktimeindex:          bti,
		allCache:                cache,
		gsfaReader:              gsfaReader,
	}
	t.Cleanup(func() { slotToCid.Close(); sigToCid.Close(); cidToOas.Close(); carFile.Close() })
	fx.multi = NewMultiEpoch(&Options{EpochSearchConcurrency: 1})
	if err := fx.multi.AddEpoch(c07hEpoch, fx.epoch); err != nil {
		t.Fatal(err)
	}
	return fx
}

// the property's oracle: labels of the archived transactions of [start, end] satisfying keep, in (slot, position) order
func (fx *c07hFixture) required(start, end uint64, keep func(*c07hTx) bool) []string {
	out := []string{}
	for _, x := range fx.txs {
		if x.slot >= start && x.slot <= end && (keep == nil || keep(x)) {
			out = append(out, x.label)
		}
	}
	return out
}

// ---- fake server streams ----

type c07hTxStream struct {
	grpc.ServerStream
	ctx context.Context
	mu  sync.Mutex
	got []*old_faithful_grpc.TransactionResponse
}

func (s *c07hTxStream) Context() context.Context { return s.ctx }
func (s *c07hTxStream) Send(r *old_faithful_grpc.TransactionResponse) error {
	s.mu.Lock()
	defer s.mu.Unlock()
	s.got = append(s.got, r)
	return nil
}

func (s *c07hTxStream) responses() []*old_faithful_grpc.TransactionResponse {
	s.mu.Lock()
	defer s.mu.Unlock()
	return append([]*old_faithful_grpc.TransactionResponse(nil), s.got...)
}

type c07hBlockStream struct {
	grpc.ServerStream
	ctx    context.Context
	mu     sync.Mutex
	got    []*old_faithful_grpc.BlockResponse
	onSend func(n int) error
}

func (s *c07hBlockStream) Context() context.Context { return s.ctx }
func (s *c07hBlockStream) Send(r *old_faithful_grpc.BlockResponse) error {
	s.mu.Lock()
	defer s.mu.Unlock()
	s.got = append(s.got, r)
	if s.onSend != nil {
		return s.onSend(len(s.got))
	}
	return nil
}

var (
	_ old_faithful_grpc.OldFaithful_StreamTransactionsServer = (*c07hTxStream)(nil)
	_ old_faithful_grpc.OldFaithful_StreamBlocksServer       = (*c07hBlockStream)(nil)
)

// which archived transaction a response carries (by the first signature of the transaction bytes)
func (fx *c07hFixture) txOf(r *old_faithful_grpc.TransactionResponse) *c07hTx {
	if r.GetTransaction() == nil || len(r.GetTransaction().GetTransaction()) == 0 {
		return nil
	}
	tx, err := solana.TransactionFromDecoder(bin.NewBinDecoder(r.GetTransaction().GetTransaction()))
	if err != nil || len(tx.Signatures) == 0 {
		return nil
	}
	return fx.bySig[tx.Signatures[0]]
}

func (fx *c07hFixture) labels(rs []*old_faithful_grpc.TransactionResponse) []string {
	out := []string{}
	for _, r := range rs {
		if x := fx.txOf(r); x != nil {
			out = append(out, x.label)
		} else {
			out = append(out, fmt.Sprintf("<response without a transaction, Slot=%d>", r.GetSlot()))
		}
	}
	return out
}

func c07hShow(ls []string) string {
	if len(ls) > 14 {
		return fmt.Sprintf("%d transactions [%s ... %s]", len(ls), strings.Join(ls[:3], " "), ls[len(ls)-1])
	}
	return fmt.Sprintf("%d transactions [%s]", len(ls), strings.Join(ls, " "))
}

func c07hEqual(a, b []string) bool {
	if len(a) != len(b) {
		return false
	}
	for i := range a {
		if a[i] != b[i] {
			return false
		}
	}
	return true
}

func c07hStrs(ks ...solana.PublicKey) []string {
	out := make([]string, len(ks))
	for i, k := range ks {
		out[i] = k.String()
	}
	return out
}

func c07hPtr[T any](v T) *T { return &v }

func (fx *c07hFixture) streamTx(t *testing.T, start, end uint64, f *old_faithful_grpc.StreamTransactionsFilter) ([]*old_faithful_grpc.TransactionResponse, error) {
	t.Helper()
	ser := &c07hTxStream{ctx: context.Background()}
	err := fx.multi.StreamTransactions(&old_faithful_grpc.StreamTransactionsRequest{StartSlot: start, EndSlot: &end, Filter: f}, ser)
	return ser.responses(), err
}

// ---------------------------------------------------------------------------------------------------------------------

func TestReplayC07HandlerResponseOrder(t *testing.T) {
	ctx := context.Background()
	multi := NewMultiEpoch(&Options{EpochSearchConcurrency: 1, GsfaOnlySignatures: true})
	var H []string // expected signatures: newest epoch first, newest transaction first inside an epoch
	perEpoch := map[uint64][]string{}
	for _, e := range []uint64{0, 1, 2} {
		c07hEpoch = e
		fx := c07hBuild(t, true)
		if err := multi.AddEpoch(e, fx.epoch); err != nil {
			t.Fatal(err)
		}
		for i := len(fx.txs) - 1; i >= 0; i-- {
			if fx.txs[i].has(c07hA) {
				perEpoch[e] = append(perEpoch[e], fx.txs[i].sig.String())
			}
		}
	}
	for _, e := range []uint64{2, 1, 0} {
		H = append(H, perEpoch[e]...)
	}
	if len(H) != 12 {
		t.Fatalf("fixture: expected 12 transactions of A, have %d", len(H))
	}
	call := func(params string) []string {
		raw := json.RawMessage(params)
		req := &jsonrpc2.Request{Method: "getSignaturesForAddress", Params: &raw, ID: jsonrpc2.ID{Num: 1}}
		rc := &fasthttp.RequestCtx{}
		rpcErr, err := multi.handleGetSignaturesForAddress(ctx, &requestContext{ctx: rc}, req)
		if err != nil || rpcErr != nil {
			t.Fatalf("handler failed: %v %v", rpcErr, err)
		}
		var resp struct {
			Result []struct {
				Signature string `json:"signature"`
			} `json:"result"`
		}
		if err := json.Unmarshal(rc.Response.Body(), &resp); err != nil {
			t.Fatalf("bad response %q: %v", rc.Response.Body(), err)
		}
		var out []string
		for _, r := range resp.Result {
			out = append(out, r.Signature)
		}
		return out
	}
	short := func(l []string) string {
		var b []string
		for _, s := range l {
			idx := -1
			for k, h := range H {
				if h == s {
					idx = k
				}
			}
			b = append(b, fmt.Sprintf("H[%d]", idx))
		}
		return strings.Join(b, " ")
	}
	addr := c07hA.String()
	type q struct {
		name, params string
		want         []string
	}
	qs := []q{
		{"all", fmt.Sprintf(`[%q]`, addr), H},
		{"limit 6", fmt.Sprintf(`[%q, {"limit": 6}]`, addr), H[:6]},
		{"before H[1] until H[9]", fmt.Sprintf(`[%q, {"before": %q, "until": %q}]`, addr, H[1], H[9]), H[2:10]},
	}
	const runs = 40
	for _, x := range qs {
		bad := 0
		var example []string
		for r := 0; r < runs; r++ {
			got := call(x.params)
			if !c07hEqual(got, x.want) {
				bad++
				if example == nil {
					example = got
				}
			}
		}
		if bad > 0 {
			t.Errorf("REPLAY-CONFIRMED C07/response-order: %s: %d of %d identical requests answered in a wrong order; e.g. got [%s], property requires [%s]", x.name, bad, runs, short(example), short(x.want))
		}
	}
}
