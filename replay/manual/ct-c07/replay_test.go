package gsfa

// C07 replay (hand-written, overlaid into package gsfa; no file of /repo is modified):
//   cd /repo && go test -vet=off -count=1 -overlay /verif/replay/manual/ct-c07/overlay.json -run 'TestReplayC07' -v ./gsfa/
//
// Fixture: 3 epochs (2, 1, 0), each with its own gsfa index directory written by the repository's GsfaWriter, the address
// `pk` having 0..N entries in each epoch (every combination), read back through NewGsfaReader + NewGsfaReaderMultiepoch with
// the readers in descending epoch order (what getGsfaReadersInEpochDescendingOrder hands over).
// Oracle = the property statement:
//   H = concatenation over the epochs, newest epoch first, of the per-epoch lists, newest transaction first.
//   GetBeforeUntil(limit, before, until)      == take(limit, H(pos(before), pos(until)])
//   GetBeforeUntilSlot(limit, before, until)  == take(limit, [tx in H | until <= tx.Slot < before])

import (
	"context"
	"encoding/binary"
	"fmt"
	"os"
	"path/filepath"
	"sort"
	"strings"
	"testing"

	"github.com/gagliardetto/solana-go"
	"github.com/ipfs/go-cid"
	"github.com/rpcpool/yellowstone-faithful/gsfa/linkedlog"
	"github.com/rpcpool/yellowstone-faithful/indexes"
	"github.com/rpcpool/yellowstone-faithful/indexmeta"
	"github.com/rpcpool/yellowstone-faithful/ipld/ipldbindcode"
)

const c07MaxPerEpoch = 3

var (
	c07pk    = solana.MPK("Memo1UhkJRfHyvLMcVucJwxXeuD728EqVDDwQDxFMNo")
	c07other = solana.MPK("MemoSq4gqABAXKb96qnH8TysNcWxMyWCqXgDLGmfcHr")
)

func c07Slot(epoch uint64, i int) uint64   { return epoch*432000 + 10*uint64(i) + 5 }
func c07Offset(epoch uint64, i int) uint64 { return epoch*1000 + uint64(i) + 1 }

func c07Sig(epoch uint64, off uint64) solana.Signature {
	var s solana.Signature
	binary.LittleEndian.PutUint64(s[0:], epoch+1)
	binary.LittleEndian.PutUint64(s[8:], off)
	s[63] = 0xC7
	return s
}

// the fetcher the handler passes, reduced to what the readers look at: Slot and the first signature of Data
func c07Fetcher(calls *int) func(uint64, linkedlog.OffsetAndSizeAndSlot) (*ipldbindcode.Transaction, error) {
	return func(epoch uint64, oas linkedlog.OffsetAndSizeAndSlot) (*ipldbindcode.Transaction, error) {
		*calls++
		sig := c07Sig(epoch, oas.Offset)
		data := append([]byte{1}, sig[:]...)
		return &ipldbindcode.Transaction{Kind: 0, Slot: int(oas.Slot), Data: ipldbindcode.DataFrame{Kind: 6, Data: data}}, nil
	}
}

func c07BuildDir(t *testing.T, root cid.Cid, dir string, epoch uint64, n int) {
	t.Helper()
	meta := indexmeta.Meta{}
	if err := meta.AddUint64(indexmeta.MetadataKey_Epoch, epoch); err != nil {
		t.Fatal(err)
	}
	if err := meta.AddCid(indexmeta.MetadataKey_RootCid, root); err != nil {
		t.Fatal(err)
	}
	if err := meta.AddString(indexmeta.MetadataKey_Network, string(indexes.NetworkMainnet)); err != nil {
		t.Fatal(err)
	}
	w, err := NewGsfaWriter(dir, meta, epoch, root, indexes.NetworkMainnet, t.TempDir())
	if err != nil {
		t.Fatal(err)
	}
	// another address is always present, so that the index exists when pk is absent (n == 0)
	if err := w.Push(999, 50, c07Slot(epoch, 0), solana.PublicKeySlice{c07other}, true, true, false); err != nil {
		t.Fatal(err)
	}
	for i := 0; i < n; i++ {
		if err := w.Push(c07Offset(epoch, i), 100, c07Slot(epoch, i), solana.PublicKeySlice{c07pk}, true, true, false); err != nil {
			t.Fatal(err)
		}
	}
	if err := w.Close(); err != nil {
		t.Fatal(err)
	}
}

type c07Tx struct {
	epoch uint64
	slot  uint64
	sig   solana.Signature
}

func (x c07Tx) String() string { return fmt.Sprintf("e%d/s%d", x.epoch, x.slot) }

func c07Flat(t *testing.T, m EpochToTransactionObjects) []c07Tx {
	var eps []uint64
	for e := range m {
		eps = append(eps, e)
	}
	sort.Slice(eps, func(i, j int) bool { return eps[i] > eps[j] })
	var out []c07Tx
	for _, e := range eps {
		for _, tx := range m[e] {
			sig, err := tx.Signature()
			if err != nil {
				t.Fatal(err)
			}
			out = append(out, c07Tx{e, uint64(tx.Slot), sig})
		}
	}
	return out
}

func c07Eq(a, b []c07Tx) bool {
	if len(a) != len(b) {
		return false
	}
	for i := range a {
		if a[i] != b[i] {
			return false
		}
	}
	return true
}

func c07Str(a []c07Tx) string {
	var s []string
	for _, x := range a {
		s = append(s, x.String())
	}
	return "[" + strings.Join(s, " ") + "]"
}

type c07Report struct {
	t     *testing.T
	count map[string]int
}

func (r *c07Report) fail(tag, format string, args ...any) {
	r.count[tag]++
	if r.count[tag] <= 4 {
		r.t.Errorf("REPLAY-CONFIRMED C07/%s: %s", tag, fmt.Sprintf(format, args...))
	}
}

func TestReplayC07(t *testing.T) {
	root, err := cid.Parse("bafkreihdwdcefgh4dqkjv67uzcmw7ojee6xedzdetojuzjevtenxquvyku")
	if err != nil {
		t.Fatal(err)
	}
	base := t.TempDir()
	epochs := []uint64{2, 1, 0}
	// one index directory per (epoch, number of entries)
	readers := map[[2]int]*GsfaReader{}
	for _, e := range epochs {
		for n := 0; n <= c07MaxPerEpoch; n++ {
			dir := filepath.Join(base, fmt.Sprintf("e%d-n%d", e, n))
			if err := os.MkdirAll(dir, 0o755); err != nil {
				t.Fatal(err)
			}
			c07BuildDir(t, root, dir, e, n)
			r, err := NewGsfaReader(dir)
			if err != nil {
				t.Fatal(err)
			}
			r.SetEpoch(e)
			readers[[2]int{int(e), n}] = r
			t.Cleanup(func() { r.Close() })
		}
	}
	rep := &c07Report{t: t, count: map[string]int{}}
	ctx := context.Background()
	configs, queries := 0, 0
	for n2 := 0; n2 <= c07MaxPerEpoch; n2++ {
		for n1 := 0; n1 <= c07MaxPerEpoch; n1++ {
			for n0 := 0; n0 <= c07MaxPerEpoch; n0++ {
				configs++
				ns := map[uint64]int{2: n2, 1: n1, 0: n0}
				multi, err := NewGsfaReaderMultiepoch([]*GsfaReader{readers[[2]int{2, n2}], readers[[2]int{1, n1}], readers[[2]int{0, n0}]})
				if err != nil {
					t.Fatal(err)
				}
				// H: newest epoch first, newest transaction first
				var H []c07Tx
				for _, e := range epochs {
					for i := ns[e] - 1; i >= 0; i-- {
						H = append(H, c07Tx{e, c07Slot(e, i), c07Sig(e, c07Offset(e, i))})
					}
				}
				cfg := fmt.Sprintf("entries per epoch {2:%d 1:%d 0:%d}", n2, n1, n0)
				limits := []int{1, 2, 3, len(H), len(H) + 1, 1000}
				// ---- GetBeforeUntil ----
				for _, limit := range limits {
					if limit <= 0 {
						continue
					}
					for b := -1; b < len(H); b++ {
						for u := -1; u < len(H); u++ {
							var before, until *solana.Signature
							if b >= 0 {
								s := H[b].sig
								before = &s
							}
							if u >= 0 {
								s := H[u].sig
								until = &s
							}
							start := b + 1
							end := len(H)
							if u > b {
								end = u + 1
							}
							// (until at or newer than before: `until` is never met after `before`, the run goes on to the oldest
							// entry - the statement leaves this case open; this is also what the Solana RPC does)
							var want []c07Tx
							if start < end {
								want = H[start:end]
								if len(want) > limit {
									want = want[:limit]
								}
							}
							calls := 0
							got, err := multi.GetBeforeUntil(ctx, c07pk, limit, before, until, c07Fetcher(&calls))
							queries++
							if err != nil {
								rep.fail("sig-error", "%s limit=%d before=#%d until=#%d: error %v", cfg, limit, b, u, err)
								continue
							}
							flat := c07Flat(t, got)
							if !c07Eq(flat, want) {
								rep.fail("sig-paging", "%s H=%s limit=%d before=#%d until=#%d: got %s, property requires %s", cfg, c07Str(H), limit, b, u, c07Str(flat), c07Str(want))
							}
						}
					}
				}
				// ---- GetBeforeUntilSlot ----
				cand := map[uint64]bool{0: true, 3 * 432000: true}
				for _, x := range H {
					cand[x.slot] = true
					cand[x.slot+1] = true
				}
				var cs []uint64
				for c := range cand {
					cs = append(cs, c)
				}
				sort.Slice(cs, func(i, j int) bool { return cs[i] < cs[j] })
				for _, limit := range []int{1, 2, len(H) + 1} {
					for _, until := range cs {
						for _, before := range cs {
							if before < until {
								continue
							}
							var want []c07Tx
							for _, x := range H {
								if until <= x.slot && x.slot < before && len(want) < limit {
									want = append(want, x)
								}
							}
							calls := 0
							got, err := multi.GetBeforeUntilSlot(ctx, c07pk, limit, before, until, c07Fetcher(&calls))
							queries++
							if err != nil {
								rep.fail("slot-error", "%s limit=%d before=%d until=%d: error %v", cfg, limit, before, until, err)
								continue
							}
							flat := c07Flat(t, got)
							outside := false
							for _, x := range flat {
								if x.slot < until || x.slot >= before {
									outside = true
								}
							}
							if outside {
								rep.fail("slot-outside-range", "%s H=%s limit=%d range=[until %d, before %d): returned %s, property requires %s", cfg, c07Str(H), limit, until, before, c07Str(flat), c07Str(want))
							} else if !c07Eq(flat, want) {
								rep.fail("slot-incomplete", "%s H=%s limit=%d range=[until %d, before %d): returned %s, property requires %s", cfg, c07Str(H), limit, until, before, c07Str(flat), c07Str(want))
							}
							if len(flat) > limit {
								rep.fail("slot-limit", "%s limit=%d: %d returned", cfg, limit, len(flat))
							}
						}
					}
				}
			}
		}
	}
	t.Logf("C07 replay: %d configurations, %d queries", configs, queries)
	var tags []string
	for k := range rep.count {
		tags = append(tags, k)
	}
	sort.Strings(tags)
	for _, k := range tags {
		t.Logf("C07/%s: %d failing queries", k, rep.count[k])
	}
}
