package main

// C08 replay (ct-c08b/jsonparsed-resolve-panic): encoding=jsonParsed on a v0 transaction whose lookups cannot be resolved
// against the tables the handler rebuilt: `err := tx.Message.ResolveLookups(); if err != nil { panic(err) }`.
//
// The tables are keyed by the lookup's table address and (re)created per lookup with length max(index)+1. A message that
// names the same table in two lookups (first with index 5, then with index 0) leaves a 1-element table behind; resolving
// the first lookup then fails with "address table lookup index out of range: 5" and the handler panics on purpose.
// The message is archived data (C12); nothing validates it before this point.
//
//   cd /repo && go test -vet=off -count=1 -overlay /verif/replay/manual/ct-c08b/jsonparsed-resolve-panic/overlay.json -run 'TestReplayC08bJsonParsedResolve' -v .

import (
	"strings"
	"testing"

	"github.com/gagliardetto/solana-go"
)

func TestReplayC08bJsonParsedResolve(t *testing.T) {
	table := c08bKey(0x7A)
	lookups := []solana.MessageAddressTableLookup{
		{AccountKey: table, WritableIndexes: []uint8{5}},
		{AccountKey: table, WritableIndexes: []uint8{0}},
	}
	meta := c08bPlainMeta()
	meta.LoadedWritableAddresses = c08bKeyBytes(0xC1, 0xC2)
	fx := c08bBuild(t, []c08bBlock{
		{slot: 1000, parent: 0, txs: []c08bTx{{raw: c08bTxBytes(t, c08bV0Tx(1, lookups)), meta: c08bMeta(t, meta)}}},
	})
	a, b := fx.jsonParsedBoth(1, 1000)
	for i, o := range []c08bOutcome{a, b} {
		name := []string{"getTransaction", "getBlock"}[i]
		if o.panicked {
			t.Errorf("REPLAY-CONFIRMED C08/jsonparsed-resolve-panic (JSON-RPC %s, encoding=jsonParsed; same table in two lookups): handler panicked: %s\n  at %s", name, o.panicMsg, o.site())
			continue
		}
		if o.rpcErr == nil && !strings.Contains(o.body, `"result"`) {
			t.Errorf("%s: no response and no error: %v", name, o)
		}
		t.Logf("%s answered without crashing: %v", name, o)
	}
}
