#!/bin/bash
# usage: run_seeded.sh <seeded-name> <PROP>...   applies /verif/seeded/<name>/patch.diff to a scratch copy of /repo and runs the checks on it
set -u
NAME=$1; shift
SC=/tmp/seeded-$NAME
rm -rf $SC && cp -r /repo $SC && (cd $SC && git apply /verif/seeded/$NAME/patch.diff) || { echo "PATCH-DOES-NOT-APPLY $NAME"; rm -rf $SC; exit 3; }
for P in "$@"; do
  VERIF_DIR_OUT=1 VERIF_REPO=$SC /verif/bin/vcgo check $P > /tmp/seeded-$NAME-$P.log 2>&1
  rc=$?
  grep -h "^replay:\|^relaxed candidate\|^replayed against\|^candidate input" /verif/out/$P@seeded-$NAME/replay/*.txt 2>/dev/null | cut -c1-160 | sort | uniq -c | sort -rn > /tmp/seeded-$NAME-$P.replay
  rm -rf /verif/out/$P@seeded-$NAME /verif/out/replaytmp@seeded-$NAME
  echo "$NAME $P exit=$rc $(grep -c VIOLATION /tmp/seeded-$NAME-$P.log) violations: $(grep VIOLATION /tmp/seeded-$NAME-$P.log | head -3 | sed 's/.*obligation=//' | cut -c1-150 | tr '\n' ';')"
done
rm -rf $SC
